"""Table of every transitive McpPydanticBase subclass: fields, annotations with
module-level aliases expanded, defaults, Field(...) keywords, model_config,
hook methods and validator decorators."""
from __future__ import annotations

import ast
from dataclasses import dataclass, field
from typing import Dict, List, Optional, Set, Tuple

from .model import AnalysisError, ClassInfo, FuncInfo, Module, Project, walk_local

BASE_NAME = "McpPydanticBase"
CONSTRAINT_KW = ("ge", "le", "gt", "lt", "min_length", "max_length", "pattern", "multiple_of", "min_items", "max_items")
PYDANTIC_DECORATORS = ("field_validator", "model_validator", "validator", "root_validator")


@dataclass
class FieldInfo:
    name: str
    annotation: ast.AST
    ann_text: str
    default: Optional[ast.AST]
    required: bool
    optional_ann: bool
    alias: Optional[str]
    constraints: Dict[str, str]
    lineno: int
    owner: str


@dataclass
class ModelInfo:
    ci: ClassInfo
    fields: Dict[str, FieldInfo]
    own_fields: Dict[str, FieldInfo]
    config: Dict[str, object]
    methods: Dict[str, FuncInfo]
    decorated: List[Tuple[str, str]]  # (method, decorator)

    @property
    def qual(self) -> str:
        return self.ci.qual

    @property
    def name(self) -> str:
        return self.ci.name


class ModelTable:
    def __init__(self, P: Project):
        self.P = P
        self.models: Dict[str, ModelInfo] = {}
        self._is_model_cache: Dict[str, bool] = {}
        self.base_config: Dict[str, object] = self._base_config()
        for q, ci in P.classes.items():
            if self.is_model(ci):
                self.models[q] = None  # type: ignore[assignment]
        for q in list(self.models):
            self.models[q] = self._build(P.classes[q])

    # Pydantic v1 spellings of configuration keys, by the v2 key the tables below know
    _V1_KEYS = {"anystr_strip_whitespace": "str_strip_whitespace", "anystr_lower": "str_to_lower", "anystr_upper": "str_to_upper", "allow_population_by_field_name": "populate_by_name",
                "max_anystr_length": "str_max_length", "min_anystr_length": "str_min_length", "orm_mode": "from_attributes", "allow_mutation": "frozen", "smart_union": "protected_namespaces",
                "copy_on_model_validation": "revalidate_instances", "underscore_attrs_are_private": "protected_namespaces", "validate_all": "validate_default"}

    def _base_config(self) -> Dict[str, object]:
        """What every model inherits: the configuration of the Pydantic-branch base class (`model_config = {…}` for v2, the
        inner `class Config` for v1 — either applies, depending on the installed Pydantic, so both are read)."""
        out: Dict[str, object] = {}
        mods = [m for m in self.P.modules.values() if m.name.endswith("mcp_pydantic_base")]
        if not mods:
            return out
        m = mods[0]
        for n in m.tree.body:
            if isinstance(n, ast.If) and ast.unparse(n.test) == "PYDANTIC_AVAILABLE":
                for c in n.body:
                    if isinstance(c, ast.ClassDef) and c.name == BASE_NAME:
                        fake = ClassInfo.__new__(ClassInfo)
                        fake.module = m  # type: ignore[attr-defined]
                        for x in ast.walk(c):
                            if isinstance(x, (ast.FunctionDef, ast.AsyncFunctionDef)):
                                continue
                            if isinstance(x, (ast.Assign, ast.AnnAssign)):
                                tg = x.targets[0] if isinstance(x, ast.Assign) and len(x.targets) == 1 else getattr(x, "target", None)
                                if isinstance(tg, ast.Name) and tg.id == "model_config" and x.value is not None:
                                    out.update(self._config(fake, x.value))
                            if isinstance(x, ast.ClassDef) and x.name == "Config":
                                for y in x.body:
                                    if isinstance(y, ast.Assign) and len(y.targets) == 1 and isinstance(y.targets[0], ast.Name):
                                        k = self._V1_KEYS.get(y.targets[0].id, y.targets[0].id)
                                        v = y.value.value if isinstance(y.value, ast.Constant) else ast.unparse(y.value)
                                        if k == "frozen" and y.targets[0].id == "allow_mutation":
                                            continue
                                        if k not in out or out[k] in (False, None):
                                            out[k] = v  # (the stricter of the two spellings is what some installation gets)
        return out

    # ------------------------------------------------------------------ discovery
    def resolve_class(self, module: str, name: str) -> Optional[ClassInfo]:
        kind, obj = self.P.resolve_name(module, name.split(".")[-1].split("[")[0])
        return obj if kind == "class" else None

    def is_model(self, ci: ClassInfo, depth: int = 0) -> bool:
        if ci.qual in self._is_model_cache:
            return self._is_model_cache[ci.qual]
        res = False
        if depth < 8:
            for b in ci.bases:
                short = b.split(".")[-1].split("[")[0]
                if short == BASE_NAME:
                    res = True
                    break
                bc = self.resolve_class(ci.module.name, short)
                if bc is not None and bc is not ci and bc.name != BASE_NAME and self.is_model(bc, depth + 1):
                    res = True
                    break
        if ci.name == BASE_NAME:
            res = False
        self._is_model_cache[ci.qual] = res
        return res

    def bases(self, ci: ClassInfo) -> List[ClassInfo]:
        out = []
        for b in ci.bases:
            bc = self.resolve_class(ci.module.name, b)
            if bc is not None and bc.qual in self.models:
                out.append(bc)
        return out

    def package_bases(self, ci: ClassInfo, depth: int = 0) -> List[ClassInfo]:
        """Every class of the package on the base chain of `ci` (model classes *and* plain mixins), nearest first;
        the validation base class itself is excluded."""
        out: List[ClassInfo] = []
        if depth > 8:
            return out
        for b in ci.bases:
            bc = self.resolve_class(ci.module.name, b)
            if bc is None or bc is ci or bc.name == BASE_NAME:
                continue
            if bc not in out:
                out.append(bc)
            for x in self.package_bases(bc, depth + 1):
                if x not in out:
                    out.append(x)
        return out

    # ------------------------------------------------------------------ building
    def _build(self, ci: ClassInfo) -> ModelInfo:
        fields: Dict[str, FieldInfo] = {}
        config: Dict[str, object] = dict(self.base_config)
        for b in self.bases(ci):
            bi = self._build(b) if self.models.get(b.qual) is None else self.models[b.qual]
            fields.update(bi.fields)
            config.update(bi.config)
        own: Dict[str, FieldInfo] = {}
        for n in ci.node.body:
            if isinstance(n, ast.AnnAssign) and isinstance(n.target, ast.Name):
                if n.target.id == "model_config":
                    config.update(self._config(ci, n.value))
                    continue
                if ast.unparse(n.annotation).startswith("ClassVar"):
                    continue
                fi = self._field(ci, n)
                own[fi.name] = fi
                fields[fi.name] = fi
            elif isinstance(n, ast.Assign) and len(n.targets) == 1 and isinstance(n.targets[0], ast.Name) and n.targets[0].id == "model_config":
                config.update(self._config(ci, n.value))
        methods = {f.name: f for f in self.P.funcs.values() if f.cls is ci and f.parent is None}
        decorated = []
        for m in methods.values():
            for d in m.node.decorator_list:  # type: ignore[attr-defined]
                dn = ast.unparse(d.func if isinstance(d, ast.Call) else d).split(".")[-1]
                if dn in PYDANTIC_DECORATORS:
                    decorated.append((m.name, dn))
        return ModelInfo(ci, fields, own, config, methods, decorated)

    def _config(self, ci: ClassInfo, v: Optional[ast.AST]) -> Dict[str, object]:
        out: Dict[str, object] = {}
        if isinstance(v, ast.Call) and ast.unparse(v.func).endswith("ConfigDict"):
            for k in v.keywords:
                if k.arg:
                    out[k.arg] = k.value.value if isinstance(k.value, ast.Constant) else ast.unparse(k.value)
        elif isinstance(v, ast.Dict):
            for k, val in zip(v.keys, v.values):
                if isinstance(k, ast.Constant):
                    out[str(k.value)] = val.value if isinstance(val, ast.Constant) else ast.unparse(val)
        elif v is not None:
            # a named configuration constant (`model_config = ALLOW_EXTRA`, possibly imported or wrapped in dict(...))
            from .consteval import try_fold

            inner = v.args[0] if isinstance(v, ast.Call) and len(v.args) == 1 and not v.keywords else v
            if isinstance(inner, ast.Name):
                # a module-level name bound once to a ConfigDict(...) call / dict display in the same module
                defs = [n.value for n in ci.module.tree.body if isinstance(n, (ast.Assign, ast.AnnAssign)) and n.value is not None
                        and any(isinstance(t, ast.Name) and t.id == inner.id for t in (n.targets if isinstance(n, ast.Assign) else [n.target]))]
                if len(defs) == 1 and (isinstance(defs[0], ast.Dict) or (isinstance(defs[0], ast.Call) and ast.unparse(defs[0].func).endswith("ConfigDict"))):
                    return self._config(ci, defs[0])
            val = try_fold(self.P, ci.module, inner)
            if isinstance(val, dict):
                for k, x in val.items():
                    out[str(k)] = x if not hasattr(x, "text") else str(x)
        return out

    def _field(self, ci: ClassInfo, n: ast.AnnAssign) -> FieldInfo:
        default = n.value
        alias = None
        constraints: Dict[str, str] = {}
        required = default is None
        if isinstance(default, ast.Call) and ast.unparse(default.func).split(".")[-1] == "Field":
            has_default = False
            if default.args:
                a0 = default.args[0]
                has_default = not (isinstance(a0, ast.Constant) and a0.value is Ellipsis)
            for k in default.keywords:
                if k.arg in ("default", "default_factory"):
                    has_default = not (isinstance(k.value, ast.Constant) and k.value.value is Ellipsis)
                if k.arg == "alias" and isinstance(k.value, ast.Constant):
                    alias = k.value.value
                if k.arg in CONSTRAINT_KW:
                    constraints[k.arg] = ast.unparse(k.value)
            required = not has_default
        ann = self.expand(ci.module, n.annotation)
        txt = ast.unparse(ann)
        optional_ann = txt.startswith("Optional[") or "None" in [ast.unparse(e) for e in _union_members(ann)]
        return FieldInfo(n.target.id, ann, txt, default, required, optional_ann, alias, constraints, n.lineno, ci.qual)  # type: ignore[union-attr]

    def expand(self, m: Module, ann: ast.AST, depth: int = 0) -> ast.AST:
        """Expand module-level type aliases (RequestId, Content, …) inside an annotation."""
        if depth > 6:
            return ann
        P = self.P

        class X(ast.NodeTransformer):
            def visit_Name(s, n: ast.Name):
                kind, obj = P.resolve_name(m.name, n.id)
                if kind == "const":
                    m2, val = obj
                    if isinstance(val, ast.Subscript) and ast.unparse(val.value).split(".")[-1] in ("Union", "Optional", "List", "Dict", "Literal", "Annotated"):
                        return self.expand(m2, val, depth + 1)
                return n

            def visit_Constant(s, n: ast.Constant):
                # forward reference "ClassName"
                return n

        import copy

        return X().visit(copy.deepcopy(ann))

    # ------------------------------------------------------------------ queries
    def class_of_annotation_name(self, owner_module: str, name: str) -> Optional[ModelInfo]:
        ci = self.resolve_class(owner_module, name)
        if ci is not None and ci.qual in self.models:
            return self.models[ci.qual]
        return None

    def mentioned_models(self, mi: ModelInfo, fi: FieldInfo) -> List[ModelInfo]:
        out = []
        for n in ast.walk(fi.annotation):
            nm = None
            if isinstance(n, ast.Name):
                nm = n.id
            elif isinstance(n, ast.Constant) and isinstance(n.value, str) and n.value.isidentifier():
                nm = n.value
            elif isinstance(n, ast.Attribute):
                nm = n.attr
            if nm:
                owner = self.P.classes[fi.owner].module.name if fi.owner in self.P.classes else mi.ci.module.name
                m2 = self.class_of_annotation_name(owner, nm)
                if m2 is not None and m2 not in out:
                    out.append(m2)
        return out


def _union_members(ann: ast.AST) -> List[ast.AST]:
    if isinstance(ann, ast.Subscript) and ast.unparse(ann.value).split(".")[-1] in ("Union", "Optional"):
        sl = ann.slice
        elts = sl.elts if isinstance(sl, ast.Tuple) else [sl]
        out = []
        for e in elts:
            out.extend(_union_members(e))
        if ast.unparse(ann.value).split(".")[-1] == "Optional":
            out.append(ast.Constant(value=None))
        return out
    if isinstance(ann, ast.BinOp) and isinstance(ann.op, ast.BitOr):
        return _union_members(ann.left) + _union_members(ann.right)
    return [ann]


union_members = _union_members


# model_config keys by what they do to a wire value.  Only Pydantic reads them (the fallback honours `extra` alone), so a
# key that rewrites or restricts values is both a loss of fidelity and a disagreement between the backends.
CONFIG_NEUTRAL = {"extra", "populate_by_name", "arbitrary_types_allowed", "protected_namespaces", "title", "json_schema_extra", "frozen", "validate_assignment", "from_attributes", "defer_build", "validate_default", "revalidate_instances"}
CONFIG_REWRITING = {"str_strip_whitespace": "strips leading/trailing whitespace (including U+0085, U+2028, U+2029) from every str member", "str_to_lower": "lower-cases every str member", "str_to_upper": "upper-cases every str member",
                    "coerce_numbers_to_str": "turns numbers into strings", "use_enum_values": "replaces enum members by their values", "str_max_length": "rejects long strings", "str_min_length": "rejects short strings",
                    "strict": "rejects values Pydantic would otherwise coerce (and the fallback accepts)", "alias_generator": "renames members", "ser_json_inf_nan": "rewrites non-finite numbers", "ser_json_bytes": "re-encodes bytes", "ser_json_timedelta": "re-encodes durations",
                    "hide_input_in_errors": ""}


def config_findings(T: "ModelTable"):
    """[(model, key, value, effect)] for every model_config entry that is not neutral; raises AnalysisError for a key this table does not know."""
    out = []
    for q, m in sorted(T.models.items()):
        for k, v in sorted(m.config.items()):
            if k in CONFIG_NEUTRAL or (k in CONFIG_REWRITING and not CONFIG_REWRITING[k]):
                continue
            if k in CONFIG_REWRITING:
                if v in (False, None, "False", "None"):
                    continue
                out.append((m, k, v, CONFIG_REWRITING[k]))
            else:
                raise AnalysisError(f"{m.ci.module.rel}: {m.name}.model_config sets `{k}`, which the configuration table of these rules does not classify")
    return out

