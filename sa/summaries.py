"""Computed (not declared) function summaries used by the accounting rules."""
from __future__ import annotations

import ast
from typing import Callable, Dict, Optional, Set

from .flow import ANY_EXC, CANCEL
from .model import FuncInfo, Project, call_name
from .paths import PState, PathAnalysis, calls_in_order, is_benign_call, is_list_total, is_mapping_get, is_mapping_get_here, is_sequence_op, list_names, mapping_names, run_paths

_CONTAINED: Dict[str, bool] = {}


def plain_record_construction(P: Project, f: FuncInfo, c: ast.Call) -> bool:
    """`cls(k=v, …)` in a classmethod / `Record(k=v, …)`: building a package dataclass that has no __post_init__ and no
    hand-written __init__ — with keywords naming its fields this only stores the values."""
    ci = None
    if isinstance(c.func, ast.Name) and c.func.id == "cls" and f.cls is not None:
        ci = f.cls
    elif isinstance(c.func, ast.Name):
        kind, obj = P.resolve_name(f.module.name, c.func.id)
        if kind == "class":
            ci = obj
    if ci is None or c.args or any(k.arg is None for k in c.keywords):
        return False
    if not any(ast.unparse(d.func if isinstance(d, ast.Call) else d).split(".")[-1] == "dataclass" for d in ci.node.decorator_list):
        return False
    if any(isinstance(x, (ast.FunctionDef, ast.AsyncFunctionDef)) and x.name in ("__post_init__", "__init__", "__new__", "__setattr__") for x in ci.node.body):
        return False
    fields = {x.target.id for x in ci.node.body if isinstance(x, ast.AnnAssign) and isinstance(x.target, ast.Name)}
    return all(k.arg in fields for k in c.keywords)


def class_mapping_attrs(P: Project, cls) -> set:
    """Attributes of `cls` that hold a dict for the object's whole life: every store to `self.<a>` in the class's methods
    binds a dict display / dict() (annotated or not)."""
    stores: Dict[str, list] = {}
    for m in P.methods(cls).values():
        for n in ast.walk(m.node):
            tg = val = None
            if isinstance(n, ast.Assign):
                tg, val = n.targets, n.value
            elif isinstance(n, ast.AnnAssign):
                tg, val = [n.target], n.value
            elif isinstance(n, ast.AugAssign):
                tg, val = [n.target], None
            for t in tg or []:
                if isinstance(t, ast.Attribute) and isinstance(t.value, ast.Name) and t.value.id == "self":
                    stores.setdefault(t.attr, []).append(val)
    return {a for a, vs in stores.items() if vs and all(isinstance(v, ast.Dict) or (isinstance(v, ast.Call) and isinstance(v.func, ast.Name) and v.func.id == "dict" and not v.args) for v in vs)}


def contained(P: Project, f: FuncInfo, depth: int = 0) -> bool:
    """True iff no Exception can leave `f` under the model 'every call/await may
    raise except logging-like calls and calls of functions that are themselves
    contained' — i.e. its fallible statements all sit under handlers for
    Exception that do not raise."""
    key = f"{P.digest()[:12]}:{f.fq}"
    if key in _CONTAINED:
        return _CONTAINED[key]
    _CONTAINED[key] = True  # co-inductive assumption for (self-)recursive calls: exceptions can only start at non-recursive operations

    maps = mapping_names(f.node)

    lists = list_names(f.node)
    self_maps = class_mapping_attrs(P, f.cls) if f.cls is not None else set()

    def is_self_mapping_get(c) -> bool:
        # `self.sessions.get(sid, DEFAULT)` on an attribute that only ever holds a dict: as total as `sid in self.sessions`
        fn_ = c.func
        return (isinstance(fn_, ast.Attribute) and fn_.attr == "get" and isinstance(fn_.value, ast.Attribute) and isinstance(fn_.value.value, ast.Name) and fn_.value.value.id == "self"
                and fn_.value.attr in self_maps and 1 <= len(c.args) <= 2 and not c.keywords and all(isinstance(a, (ast.Constant, ast.Name)) for a in c.args))

    def pred(node, st: PState, an: PathAnalysis):
        hv = tuple(h.name for h in an.handler_stack if h.name)
        truthy = {n_ for n_ in lists if (st.term(n_) or n_) in st.lits or n_ in st.lits} if lists else ()
        for c in calls_in_order(node):
            if is_benign_call(c, hv) or is_mapping_get(c, maps) or is_self_mapping_get(c) or (lists and is_list_total(c, lists, truthy)) or is_sequence_op(c, st) or is_mapping_get_here(c, st) or plain_record_construction(P, f, c):
                continue
            if depth < 3:
                g = P.resolve_call(f, c)
                if g is f:
                    continue  # self-recursion: covered by the co-inductive assumption
                if isinstance(g, FuncInfo) and contained(P, g, depth + 1):
                    continue
            return {ANY_EXC}
        return set()

    an, out = run_paths(f.node, fallible_pred=pred)
    res = not any(t != CANCEL for _s, t, _n in out.exc)
    _CONTAINED[key] = res
    return res


_EXPLICIT: Dict[str, bool] = {}


def raises_explicitly(P: Project, g: FuncInfo, depth: int = 0) -> bool:
    """Does `g` — or a package function it calls, transitively — contain a `raise <Something>` that no enclosing handler of
    the same function catches?  (The weaker, syntactic notion of "can raise": explicit raises only.  Used where the
    strict every-call-may-raise model would flag ordinary total code — string comparisons, regular-expression matches.)"""
    key = f"{P.digest()[:12]}:{g.fq}"
    if key in _EXPLICIT:
        return _EXPLICIT[key]
    _EXPLICIT[key] = False
    res = False

    def caught_by(raise_node, stack) -> bool:
        for t in stack:
            for h in t.handlers:
                nm = "<bare>" if h.type is None else ast.unparse(h.type)
                if h.type is None or "Exception" in nm.split(".")[-1:] or nm in ("Exception", "BaseException"):
                    return True
                exc = raise_node.exc.func if isinstance(raise_node.exc, ast.Call) else raise_node.exc
                if exc is not None and ast.unparse(exc).split(".")[-1] in nm:
                    return True
        return False

    def rec(n, stack):
        nonlocal res
        if res:
            return
        if isinstance(n, (ast.FunctionDef, ast.AsyncFunctionDef, ast.Lambda)) and n is not g.node:
            return
        if isinstance(n, ast.Raise) and n.exc is not None and not caught_by(n, stack):
            res = True
            return
        if isinstance(n, ast.Call) and depth < 4:
            h = P.resolve_call(g, n)
            if isinstance(h, FuncInfo) and h is not g and not stack and raises_explicitly(P, h, depth + 1):
                res = True
                return
        if isinstance(n, ast.Try):
            for b in n.body:
                rec(b, stack + [n])
            for h in n.handlers:
                for b in h.body:
                    rec(b, stack)
            for b in n.orelse + n.finalbody:
                rec(b, stack)
            return
        for c in ast.iter_child_nodes(n):
            rec(c, stack)

    rec(g.node, [])
    _EXPLICIT[key] = res
    return res


def fallible_except_contained(P: Project, f: FuncInfo, extra_total: Optional[Callable[[ast.Call], bool]] = None):
    """Fallibility predicate: every call/await may raise, except benign calls,
    calls of contained package functions and whatever `extra_total` accepts."""

    maps = mapping_names(f.node)

    lists = list_names(f.node)

    def pred(node, st: PState, an: PathAnalysis):
        hv = tuple(h.name for h in an.handler_stack if h.name)
        truthy = {n_ for n_ in lists if (st.term(n_) or n_) in st.lits or n_ in st.lits} if lists else ()
        for c in calls_in_order(node):
            if is_benign_call(c, hv) or is_mapping_get(c, maps) or (lists and is_list_total(c, lists, truthy)) or is_sequence_op(c, st) or is_mapping_get_here(c, st):
                continue
            if extra_total is not None and extra_total(c):
                continue
            g = P.resolve_call(f, c)
            if isinstance(g, FuncInfo) and g is not f and contained(P, g):
                continue
            return {ANY_EXC}
        return set()

    return pred


def predicate_inliner(P: Project, f: FuncInfo, depth: int = 2):
    """Returns `inline(call)`: if `call` (in `f`) resolves to a package function whose body is a single
    `return <expr>` over its parameters, the expression with the arguments substituted, else None.
    Lets a guard extracted into a small predicate helper be read like the inline guard."""
    import copy

    def inline(call: ast.Call, d: int = depth):
        if d <= 0 or call.keywords and any(k.arg is None for k in call.keywords):
            return None
        g = P.resolve_call(f, call)
        if not isinstance(g, FuncInfo) or g is f:
            return None
        body = [s for s in g.node.body if not (isinstance(s, ast.Expr) and isinstance(s.value, ast.Constant))]
        if len(body) != 1 or not isinstance(body[0], ast.Return) or body[0].value is None:
            return None
        params = [p for p in g.positional_params() if p not in ("self", "cls")]
        if any(isinstance(a, ast.Starred) for a in call.args) or len(call.args) > len(params):
            return None
        binding = dict(zip(params, call.args))
        for k in call.keywords:
            binding[k.arg] = k.value
        for p in params:
            if p not in binding:
                dflt = g.param_default(p)
                if dflt is None:
                    return None
                binding[p] = dflt
        expr = copy.deepcopy(body[0].value)
        if any(isinstance(n, (ast.Await, ast.Yield, ast.Lambda)) for n in ast.walk(expr)):
            return None

        class Sub(ast.NodeTransformer):
            def visit_Name(self, n):
                if isinstance(n.ctx, ast.Load) and n.id in binding:
                    return copy.deepcopy(binding[n.id])
                return n

        return ast.fix_missing_locations(Sub().visit(expr))

    return inline
