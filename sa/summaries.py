"""Computed (not declared) function summaries used by the accounting rules."""
from __future__ import annotations

import ast
from typing import Callable, Dict, Optional, Set

from .flow import ANY_EXC, CANCEL
from .model import AnalysisError, FuncInfo, Project, call_name, walk_local
from .paths import PState, PathAnalysis, calls_in_order, is_benign_call, is_list_total, is_mapping_get, is_mapping_get_here, is_sequence_op, list_names, mapping_names, run_paths

_CONTAINED: Dict[str, bool] = {}


def plain_record_construction(P: Project, f: FuncInfo, c: ast.Call) -> bool:
    """`cls(k=v, …)` in a classmethod / `Record(k=v, …)`: building a package dataclass that has no __post_init__ and no
    hand-written __init__ — with keywords naming its fields this only stores the values."""
    ci = None
    if isinstance(c.func, ast.Name) and c.func.id == "cls" and f.cls is not None:
        ci = f.cls
    elif isinstance(c.func, ast.Name):
        kind, obj = P.resolve_name(f.module.name, c.func.id)
        if kind == "class":
            ci = obj
    if ci is None or c.args or any(k.arg is None for k in c.keywords):
        return False
    if not any(ast.unparse(d.func if isinstance(d, ast.Call) else d).split(".")[-1] == "dataclass" for d in ci.node.decorator_list):
        return False
    if any(isinstance(x, (ast.FunctionDef, ast.AsyncFunctionDef)) and x.name in ("__post_init__", "__init__", "__new__", "__setattr__") for x in ci.node.body):
        return False
    fields = {x.target.id for x in ci.node.body if isinstance(x, ast.AnnAssign) and isinstance(x.target, ast.Name)}
    return all(k.arg in fields for k in c.keywords)


def class_mapping_attrs(P: Project, cls) -> set:
    """Attributes of `cls` that hold a dict for the object's whole life: every store to `self.<a>` in the class's methods
    binds a dict display / dict() (annotated or not)."""
    stores: Dict[str, list] = {}
    for m in P.methods(cls).values():
        for n in ast.walk(m.node):
            tg = val = None
            if isinstance(n, ast.Assign):
                tg, val = n.targets, n.value
            elif isinstance(n, ast.AnnAssign):
                tg, val = [n.target], n.value
            elif isinstance(n, ast.AugAssign):
                tg, val = [n.target], None
            for t in tg or []:
                if isinstance(t, ast.Attribute) and isinstance(t.value, ast.Name) and t.value.id == "self":
                    stores.setdefault(t.attr, []).append(val)
    return {a for a, vs in stores.items() if vs and all(isinstance(v, ast.Dict) or (isinstance(v, ast.Call) and isinstance(v.func, ast.Name) and v.func.id == "dict" and not v.args) for v in vs)}


def injectable_callables(P: Project, ci) -> Set[str]:
    """Attributes of the class that hold None unless a constructor parameter (itself None by default) gave a value, and that
    no other method stores: optional collaborators (a clock, a metrics hook) the library itself never sets."""
    out: Set[str] = set()
    meths = P.methods(ci)
    init = meths.get("__init__")
    class_none = set()
    for s_ in ci.node.body:
        tg = s_.targets[0] if isinstance(s_, ast.Assign) and len(s_.targets) == 1 else (s_.target if isinstance(s_, ast.AnnAssign) else None)
        v = getattr(s_, "value", None)
        if isinstance(tg, ast.Name) and isinstance(v, ast.Constant) and v.value is None:
            class_none.add(tg.id)
    opt = set()
    if init is not None:
        a = init.node.args
        opt = {x.arg for x, d in zip((a.posonlyargs + a.args)[::-1], a.defaults[::-1]) if isinstance(d, ast.Constant) and d.value is None} | {x.arg for x, d in zip(a.kwonlyargs, a.kw_defaults) if isinstance(d, ast.Constant) and d.value is None}
    stores = {}
    for m in meths.values():
        for x in walk_local(m.node):
            tgs = x.targets if isinstance(x, ast.Assign) else ([x.target] if isinstance(x, (ast.AnnAssign, ast.AugAssign)) else [])
            for t in tgs:
                if isinstance(t, ast.Attribute) and isinstance(t.value, ast.Name) and t.value.id == "self":
                    stores.setdefault(t.attr, []).append((m, getattr(x, "value", None)))
    for attr in class_none | set(stores):
        ss = stores.get(attr, [])
        if all(m is init and isinstance(v, ast.Name) and v.id in opt and not any(isinstance(y, ast.Name) and y.id == v.id and isinstance(y.ctx, ast.Store) for y in walk_local(init.node)) for m, v in ss) and (attr in class_none or ss):
            out.add(attr)
    return out


def contained(P: Project, f: FuncInfo, depth: int = 0) -> bool:
    """True iff no Exception can leave `f` under the model 'every call/await may
    raise except logging-like calls and calls of functions that are themselves
    contained' — i.e. its fallible statements all sit under handlers for
    Exception that do not raise."""
    key = f"{P.digest()[:12]}:{f.fq}"
    if key in _CONTAINED:
        return _CONTAINED[key]
    _CONTAINED[key] = True  # co-inductive assumption for (self-)recursive calls: exceptions can only start at non-recursive operations

    maps = mapping_names(f.node)

    lists = list_names(f.node)
    self_maps = class_mapping_attrs(P, f.cls) if f.cls is not None else set()

    def is_self_mapping_get(c) -> bool:
        # `self.sessions.get(sid, DEFAULT)` on an attribute that only ever holds a dict: as total as `sid in self.sessions`
        fn_ = c.func
        return (isinstance(fn_, ast.Attribute) and fn_.attr == "get" and isinstance(fn_.value, ast.Attribute) and isinstance(fn_.value.value, ast.Name) and fn_.value.value.id == "self"
                and fn_.value.attr in self_maps and 1 <= len(c.args) <= 2 and not c.keywords and all(isinstance(a, (ast.Constant, ast.Name)) for a in c.args))

    hooks = injectable_callables(P, f.cls) if f.cls is not None else set()

    def is_unset_hook(c) -> bool:
        """`self._clock()` / `clock = self._clock; … clock()` for an attribute that holds None unless the embedding program
        handed a callable to the constructor: with the library's own defaults the call is never reached, and what a supplied
        collaborator does is its supplier's business (same reading as `attr_class` for injected objects)"""
        fn_ = c.func
        if isinstance(fn_, ast.Attribute) and isinstance(fn_.value, ast.Name) and fn_.value.id == "self" and fn_.attr in hooks:
            return True
        if isinstance(fn_, ast.Name):
            defs = [x.value for x in walk_local(f.node) if isinstance(x, ast.Assign) and len(x.targets) == 1 and isinstance(x.targets[0], ast.Name) and x.targets[0].id == fn_.id]
            return bool(defs) and all(isinstance(d, ast.Attribute) and isinstance(d.value, ast.Name) and d.value.id == "self" and d.attr in hooks for d in defs)
        return False

    def pred(node, st: PState, an: PathAnalysis):
        hv = tuple(h.name for h in an.handler_stack if h.name)
        truthy = {n_ for n_ in lists if (st.term(n_) or n_) in st.lits or n_ in st.lits} if lists else ()
        for c in calls_in_order(node):
            if is_benign_call(c, hv) or is_mapping_get(c, maps) or is_self_mapping_get(c) or (lists and is_list_total(c, lists, truthy)) or is_sequence_op(c, st) or is_mapping_get_here(c, st) or plain_record_construction(P, f, c):
                continue
            if hooks and is_unset_hook(c):
                continue
            if depth < 3:
                g = P.resolve_call(f, c)
                if g is f:
                    continue  # self-recursion: covered by the co-inductive assumption
                if isinstance(g, FuncInfo) and contained(P, g, depth + 1):
                    continue
            return {ANY_EXC}
        return set()

    an, out = run_paths(f.node, fallible_pred=pred)
    res = not any(t != CANCEL for _s, t, _n in out.exc)
    _CONTAINED[key] = res
    return res


_EXPLICIT: Dict[str, bool] = {}


def raises_explicitly(P: Project, g: FuncInfo, depth: int = 0) -> bool:
    """Does `g` — or a package function it calls, transitively — contain a `raise <Something>` that no enclosing handler of
    the same function catches?  (The weaker, syntactic notion of "can raise": explicit raises only.  Used where the
    strict every-call-may-raise model would flag ordinary total code — string comparisons, regular-expression matches.)"""
    key = f"{P.digest()[:12]}:{g.fq}"
    if key in _EXPLICIT:
        return _EXPLICIT[key]
    _EXPLICIT[key] = False
    res = False

    def caught_by(raise_node, stack) -> bool:
        for t in stack:
            for h in t.handlers:
                nm = "<bare>" if h.type is None else ast.unparse(h.type)
                if h.type is None or "Exception" in nm.split(".")[-1:] or nm in ("Exception", "BaseException"):
                    return True
                exc = raise_node.exc.func if isinstance(raise_node.exc, ast.Call) else raise_node.exc
                if exc is not None and ast.unparse(exc).split(".")[-1] in nm:
                    return True
        return False

    def rec(n, stack):
        nonlocal res
        if res:
            return
        if isinstance(n, (ast.FunctionDef, ast.AsyncFunctionDef, ast.Lambda)) and n is not g.node:
            return
        if isinstance(n, ast.Raise) and n.exc is not None and not caught_by(n, stack):
            res = True
            return
        if isinstance(n, ast.Call) and depth < 4:
            h = P.resolve_call(g, n)
            if isinstance(h, FuncInfo) and h is not g and not stack and raises_explicitly(P, h, depth + 1):
                res = True
                return
        if isinstance(n, ast.Try):
            for b in n.body:
                rec(b, stack + [n])
            for h in n.handlers:
                for b in h.body:
                    rec(b, stack)
            for b in n.orelse + n.finalbody:
                rec(b, stack)
            return
        for c in ast.iter_child_nodes(n):
            rec(c, stack)

    rec(g.node, [])
    _EXPLICIT[key] = res
    return res


def fallible_except_contained(P: Project, f: FuncInfo, extra_total: Optional[Callable[[ast.Call], bool]] = None):
    """Fallibility predicate: every call/await may raise, except benign calls,
    calls of contained package functions and whatever `extra_total` accepts."""

    maps = mapping_names(f.node)

    lists = list_names(f.node)

    def pred(node, st: PState, an: PathAnalysis):
        hv = tuple(h.name for h in an.handler_stack if h.name)
        truthy = {n_ for n_ in lists if (st.term(n_) or n_) in st.lits or n_ in st.lits} if lists else ()
        for c in calls_in_order(node):
            if is_benign_call(c, hv) or is_mapping_get(c, maps) or (lists and is_list_total(c, lists, truthy)) or is_sequence_op(c, st) or is_mapping_get_here(c, st):
                continue
            if extra_total is not None and extra_total(c):
                continue
            if _module_table_get(c):
                continue
            if isinstance(c.func, ast.Name) and c.func.id == "getattr" and len(c.args) == 2 and isinstance(c.args[0], ast.Name) and c.args[0].id == "self" and f.cls is not None:
                fake = ast.Call(func=c, args=[], keywords=[])
                ast.copy_location(fake, c)
                if _by_name_targets(fake) is not None:
                    continue  # every name it can be given is a method of the class: the look-up itself cannot fail
            g = P.resolve_call(f, c)
            if isinstance(g, FuncInfo) and g is not f and contained(P, g):
                continue
            dyn = _by_name_targets(c)
            if dyn is not None:
                if all(contained(P, g_) for g_ in dyn):
                    continue
                return {ANY_EXC}
            return {ANY_EXC}
        return set()

    def _module_table(name: str):
        v = P.module_assign(f.module, name)
        local = any(isinstance(x, ast.Name) and x.id == name and isinstance(x.ctx, ast.Store) for x in walk_local(f.node))
        return v if isinstance(v, ast.Dict) and not local and all(isinstance(k, ast.Constant) for k in v.keys) else None

    def _module_table_get(c: ast.Call) -> bool:
        """`TABLE.get(key[, default])` on a module-level dict display with constant keys: total for a hashable key"""
        fn_ = c.func
        return (isinstance(fn_, ast.Attribute) and fn_.attr == "get" and isinstance(fn_.value, ast.Name) and _module_table(fn_.value.id) is not None
                and 1 <= len(c.args) <= 2 and not c.keywords and all(isinstance(a, (ast.Constant, ast.Name)) for a in c.args))

    def _by_name_targets(c: ast.Call):
        """`getattr(self, name)(…)` with `name` read from a module-level table of method names: the methods it can be
        (None when the call is not of that form; an unresolvable name is an analysis error, not a finding)"""
        fn_ = c.func
        if not (isinstance(fn_, ast.Call) and isinstance(fn_.func, ast.Name) and fn_.func.id == "getattr" and len(fn_.args) == 2 and isinstance(fn_.args[0], ast.Name) and fn_.args[0].id == "self" and f.cls is not None):
            return None
        nm = fn_.args[1]
        names = None
        if isinstance(nm, ast.Constant) and isinstance(nm.value, str):
            names = [nm.value]
        elif isinstance(nm, ast.Name):
            defs = [x.value for x in walk_local(f.node) if isinstance(x, ast.Assign) and len(x.targets) == 1 and isinstance(x.targets[0], ast.Name) and x.targets[0].id == nm.id]
            if len(defs) == 1:
                d = defs[0]
                tbl = None
                if isinstance(d, ast.Call) and isinstance(d.func, ast.Attribute) and d.func.attr == "get" and isinstance(d.func.value, ast.Name):
                    tbl = _module_table(d.func.value.id)
                elif isinstance(d, ast.Subscript) and isinstance(d.value, ast.Name):
                    tbl = _module_table(d.value.id)
                if tbl is not None and all(isinstance(v, ast.Constant) and isinstance(v.value, str) for v in tbl.values):
                    names = [v.value for v in tbl.values]
        if names is None:
            raise AnalysisError(f"{f.module.rel}:{c.lineno}: `{ast.unparse(c)[:60]}` calls a method chosen by name at run time; which methods it can be is not readable here")
        out = []
        for n_ in names:
            g_ = P.lookup_method(f.cls, n_) if hasattr(P, "lookup_method") else None
            if g_ is None:
                raise AnalysisError(f"{f.module.rel}:{c.lineno}: `{ast.unparse(c)[:60]}` may call `{n_}`, which is not a method of {f.cls.name}")
            out.append(g_)
        return out

    return pred


def predicate_inliner(P: Project, f: FuncInfo, depth: int = 2):
    """Returns `inline(call)`: if `call` (in `f`) resolves to a package function whose body is a single
    `return <expr>` over its parameters, the expression with the arguments substituted, else None.
    Lets a guard extracted into a small predicate helper be read like the inline guard."""
    import copy

    def inline(call: ast.Call, d: int = depth):
        if d <= 0 or call.keywords and any(k.arg is None for k in call.keywords):
            return None
        g = P.resolve_call(f, call)
        if not isinstance(g, FuncInfo) or g is f:
            return None
        body = [s for s in g.node.body if not (isinstance(s, ast.Expr) and isinstance(s.value, ast.Constant))]
        if len(body) != 1 or not isinstance(body[0], ast.Return) or body[0].value is None:
            return None
        params = [p for p in g.positional_params() if p not in ("self", "cls")]
        if any(isinstance(a, ast.Starred) for a in call.args) or len(call.args) > len(params):
            return None
        binding = dict(zip(params, call.args))
        for k in call.keywords:
            binding[k.arg] = k.value
        for p in params:
            if p not in binding:
                dflt = g.param_default(p)
                if dflt is None:
                    return None
                binding[p] = dflt
        expr = copy.deepcopy(body[0].value)
        if any(isinstance(n, (ast.Await, ast.Yield, ast.Lambda)) for n in ast.walk(expr)):
            return None

        class Sub(ast.NodeTransformer):
            def visit_Name(self, n):
                if isinstance(n.ctx, ast.Load) and n.id in binding:
                    return copy.deepcopy(binding[n.id])
                return n

        return ast.fix_missing_locations(Sub().visit(expr))

    return inline
