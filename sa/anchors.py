"""Anchors found by role (what a construct does), not by private name or line."""
from __future__ import annotations

import ast
from typing import Dict, List, Optional, Set, Tuple

from .model import AnalysisError, FuncInfo, Project, walk_local, call_name

MOD_SEND = "chuk_mcp.protocol.messages.send_message"
MOD_JSONRPC = "chuk_mcp.protocol.messages.json_rpc_message"
MOD_ERRORS = "chuk_mcp.protocol.types.errors"
MOD_STDIO = "chuk_mcp.transports.stdio.stdio_client"
MOD_HTTP = "chuk_mcp.transports.http.transport"
MOD_SSE = "chuk_mcp.transports.sse.transport"
MOD_HANDLER = "chuk_mcp.server.protocol_handler"
MOD_SERVER = "chuk_mcp.server.server"
MOD_BATCH = "chuk_mcp.protocol.features.batching"
MOD_VERSION = "chuk_mcp.protocol.types.versioning"
MOD_INIT = "chuk_mcp.protocol.messages.initialize.send_messages"
MOD_BASE = "chuk_mcp.protocol.mcp_pydantic_base"
MOD_FASTJSON = "chuk_mcp.protocol.fast_json"
MOD_SESSION_MEM = "chuk_mcp.server.session.memory"
MOD_SESSION_BASE = "chuk_mcp.server.session.base"
MOD_CONFIG = "chuk_mcp.config"
MOD_SRVMGR = "chuk_mcp.mcp_client.host.server_manager"
MOD_MAIN = "chuk_mcp.__main__"
MOD_NOTIF = "chuk_mcp.protocol.messages.notifications"


def callees(project: Project, fi: FuncInfo) -> List[Tuple[ast.Call, FuncInfo]]:
    out = []
    for c in project.all_calls(fi):
        r = project.resolve_call(fi, c)
        if isinstance(r, FuncInfo):
            out.append((c, r))
    return out


def reachable(project: Project, root: FuncInfo, depth: int = 4) -> List[FuncInfo]:
    """Functions reachable from root through resolved direct calls and through
    references to nested functions (passed as callbacks)."""
    seen: Dict[str, FuncInfo] = {root.fq: root}
    frontier = [root]
    for _ in range(depth):
        nxt = []
        for f in frontier:
            for _c, g in callees(project, f):
                if g.fq not in seen:
                    seen[g.fq] = g
                    nxt.append(g)
            # nested functions defined in f are part of its behaviour
            for g in project.funcs.values():
                if g.parent is f and g.fq not in seen:
                    seen[g.fq] = g
                    nxt.append(g)
        frontier = nxt
    return list(seen.values())


def is_receive_await(node: ast.AST, stream_names: Set[str]) -> bool:
    """`await <stream>.receive()` where <stream> is one of the given names."""
    if isinstance(node, ast.Await) and isinstance(node.value, ast.Call):
        f = node.value.func
        if isinstance(f, ast.Attribute) and f.attr == "receive" and isinstance(f.value, ast.Name):
            return f.value.id in stream_names
    return False


def find_wait_loop(project: Project) -> Tuple[FuncInfo, ast.AST, ast.Assign, FuncInfo]:
    """The loop that awaits `.receive()` on the read-stream parameter, reachable
    from the public `send_message`.  Returns (function containing the loop, loop
    node, the assignment of the received message, send_message itself)."""
    root = project.func(MOD_SEND, "send_message")
    rparams = root.params()
    if len(rparams) < 2:
        raise AnalysisError("send_message lost its stream parameters")
    cands = []
    for f in reachable(project, root, depth=3):
        if not f.module.name.startswith("chuk_mcp.protocol.messages"):
            continue  # the wait loop lives in the request layer (it may have been moved to a sibling module)
        streams = set(f.params()) | ({rparams[0]} if f is root or f.parent is root else set())
        # a local that only ever names one of them (`reader = read_stream`) is that stream
        for _ in range(3):
            for a_ in walk_local(f.node):
                if isinstance(a_, ast.Assign) and len(a_.targets) == 1 and isinstance(a_.targets[0], ast.Name) and isinstance(a_.value, ast.Name) and a_.value.id in streams:
                    t_ = a_.targets[0].id
                    if sum(1 for x_ in walk_local(f.node) if isinstance(x_, ast.Name) and x_.id == t_ and isinstance(x_.ctx, ast.Store)) == 1:
                        streams.add(t_)
        for n in walk_local(f.node):
            if isinstance(n, (ast.While, ast.For, ast.AsyncFor)):
                for a in walk_local(n):
                    if isinstance(a, ast.Assign) and (is_receive_await(a.value, streams) or any(is_receive_await(x, streams) for x in ast.walk(a.value))):
                        # the received message may be bound through an expression around the await
                        # (`cache.pop(k, None) or await s.receive()`): still the receive assignment
                        cands.append((f, n, a))
    # keep the innermost loop per assignment
    best = {}
    for f, loop, a in cands:
        k = id(a)
        if k not in best or (loop.lineno > best[k][1].lineno):
            best[k] = (f, loop, a)
    uniq = list(best.values())
    if len(uniq) != 1:
        raise AnalysisError(f"anchor: expected exactly one receive loop under send_message, found {len(uniq)}")
    f, loop, a = uniq[0]
    return f, loop, a, root


def exception_parents(project: Project) -> Dict[str, str]:
    """child -> parent for exception classes defined in the package."""
    out: Dict[str, str] = {}
    for ci in project.classes.values():
        for b in ci.bases:
            short = b.split(".")[-1]
            if short.endswith(("Error", "Exception")) or short in ("Exception", "BaseException"):
                # module-qualified key avoids the JSONRPCError (model) / JSONRPCError (exception) clash
                out.setdefault(ci.name, short)
    return out
