"""Thorough tier: the checker is tested both ways on in-memory variants of the
current tree.  V (violating) variants must each add a finding; B (benign)
variants must add none.  Variants are exact text edits of the current sources;
an edit whose anchor text no longer occurs exactly once is skipped and counted.

A self-test failure means the *checker* is broken (exit 2), it is not a
violation of the property.
"""
from __future__ import annotations

import importlib
import os
from concurrent.futures import ProcessPoolExecutor
from typing import Dict, List, Optional, Tuple

from .model import AnalysisError, Project
from . import report as Rm

_PROJECT: Optional[Project] = None


def _apply(project: Project, edits) -> Optional[Dict[str, str]]:
    out: Dict[str, str] = {}
    for rel, old, new in edits:
        if old == "__WHOLE_FILE__":
            if rel not in project.sources:
                return None
            out[rel] = new
            continue
        src = out.get(rel, project.sources.get(rel))
        if src is None or src.count(old) != 1:
            return None
        out[rel] = src.replace(old, new)
    return out


def _run_variant(args):
    prop, edits = args
    project = _PROJECT
    assert project is not None
    changed = _apply(project, edits)
    if changed is None:
        return ("skipped", [])
    try:
        var = project.variant(changed)
    except AnalysisError as e:
        return ("error", [str(e)])
    from .runner import run_property

    try:
        rep = run_property(prop, var, "quick")
    except AnalysisError as e:
        return ("error", [str(e)])
    except Exception as e:  # pragma: no cover - checker crash
        return ("crash", [f"{type(e).__name__}: {e}"])
    return ("ok", sorted(rep.finding_keys()))


def _init(project_sources, label):
    global _PROJECT
    _PROJECT = Project(project_sources, label)


def run(prop: str, project: Project, rep: Rm.Report) -> Optional[str]:
    from . import mutants

    catalogue = list(mutants.for_property(prop))
    # automatic benign variants: every file the property is anchored in, re-emitted by ast.unparse
    # (comments and layout gone, every line number changed) must not add or hide a finding
    import ast as _ast
    import json as _json

    try:
        with open(os.path.join(os.path.dirname(os.path.dirname(os.path.abspath(__file__))), "properties.jsonl")) as fh:
            anchors = next((_json.loads(l)["anchors"]["files"] for l in fh if _json.loads(l)["id"] == prop), [])
    except OSError:
        anchors = []
    for rel in anchors:
        key = rel[len("src/"):] if rel.startswith("src/") else rel
        src = project.sources.get(key)
        if src is None:
            continue
        try:
            new = _ast.unparse(_ast.parse(src)) + "\n"
        except SyntaxError:
            continue
        catalogue.append({"prop": prop, "kind": "B", "name": f"reformat {key} with ast.unparse", "edits": [(key, "__WHOLE_FILE__", new)], "expect": None})
    base = rep.finding_keys()
    jobs = [(prop, m["edits"]) for m in catalogue]
    results: List[Tuple[str, List[str]]] = []
    if jobs:
        workers = min(16, len(jobs), os.cpu_count() or 4)
        with ProcessPoolExecutor(max_workers=workers, initializer=_init, initargs=(project.sources, project.label)) as ex:
            results = list(ex.map(_run_variant, jobs))
    tot = {"V": 0, "B": 0}
    good = {"V": 0, "B": 0}
    skipped = 0
    problems = []
    details = []
    for m, (status, keys) in zip(catalogue, results):
        kind = m["kind"]
        if status == "skipped":
            skipped += 1
            details.append(f"{kind} {m['name']}: skipped (anchor text not present exactly once)")
            continue
        tot[kind] += 1
        new = sorted(set(keys) - base) if status == "ok" else []
        if kind == "V":
            hit = bool(new) and (not m.get("expect") or any(k.startswith(m["expect"]) for k in new))
            if hit:
                good["V"] += 1
                details.append(f"V {m['name']}: reported as {new[0][:140]}")
            else:
                problems.append(f"violating variant not reported: {m['name']} (status {status}: {keys[:2] if status != 'ok' else new[:2]})")
        else:
            if status == "ok" and not new:
                good["B"] += 1
                details.append(f"B {m['name']}: silent")
            else:
                problems.append(f"benign variant raised an alarm: {m['name']} (status {status}: {(new or keys)[:2]})")
    rep.extra["selftest"] = {
        "mutants_total": tot["V"],
        "mutants_killed": good["V"],
        "benign_total": tot["B"],
        "benign_silent": good["B"],
        "skipped": skipped,
        "details": details,
    }
    if problems:
        return "; ".join(problems)
    return None
