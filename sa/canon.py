"""Role-based canonical renaming.

Several rules read a function through the *text* of its tests (`origin is Union`,
`type(value) is …`).  Local and parameter names are the maintainer's to choose, so
before such a rule looks at a function it works on a copy in which

* the positional parameters carry canonical names (by position), and
* locals are renamed by *role*: a local all of whose assignments satisfy a predicate
  on the assigned expression (e.g. "is a call of get_origin") gets the role's name.

Line numbers are those of the original (the copy is a deepcopy)."""
from __future__ import annotations

import ast
import copy
from typing import Callable, Dict, Optional, Sequence

from .model import AnalysisError, local_values


class _Rn(ast.NodeTransformer):
    def __init__(self, mapping):
        self.m = mapping

    def visit_Name(self, n):
        if n.id in self.m:
            n.id = self.m[n.id]
        return n

    def visit_arg(self, n):
        if n.arg in self.m:
            n.arg = self.m[n.arg]
        return n

    def visit_keyword(self, n):
        # keyword names in recursive self-calls follow the parameters
        self.generic_visit(n)
        return n

    def visit_ExceptHandler(self, n):
        if n.name and n.name in self.m:
            n.name = self.m[n.name]
        self.generic_visit(n)
        return n


def canon_copy(fn: ast.AST, params: Optional[Sequence[str]] = None, roles: Optional[Dict[str, Callable[[ast.AST], bool]]] = None, self_name: Optional[str] = None) -> ast.AST:
    node = copy.deepcopy(fn)
    mapping: Dict[str, str] = {}
    if params:
        a = node.args
        actual = [x.arg for x in a.posonlyargs + a.args]
        if actual and actual[0] in ("self", "cls"):
            actual = actual[1:]
        for have, want in zip(actual, params):
            if have != want:
                mapping[have] = want
    if mapping:
        _check_free(node, mapping)
        _Rn(mapping).visit(node)
        # recursive calls that pass renamed parameters by keyword
        me = self_name or getattr(node, "name", None)
        for c in ast.walk(node):
            if isinstance(c, ast.Call) and isinstance(c.func, ast.Name) and c.func.id == me:
                for k in c.keywords:
                    if k.arg in mapping:
                        k.arg = mapping[k.arg]
    if roles:
        vals = local_values(node)
        m2: Dict[str, str] = {}
        for want, pred in roles.items():
            cands = [nm for nm, vs in vals.items() if vs and all(v is not None and pred(v) for v in vs)]
            if len(cands) == 1 and cands[0] != want:
                m2[cands[0]] = want
            elif len(cands) > 1 and want not in cands:
                raise AnalysisError(f"role `{want}` is played by several locals {sorted(cands)} in {getattr(node, 'name', '?')}")
        if m2:
            _check_free(node, m2)
            _Rn(m2).visit(node)
    return node


def _check_free(node: ast.AST, mapping: Dict[str, str]) -> None:
    used = {n.id for n in ast.walk(node) if isinstance(n, ast.Name)} | {a.arg for a in ast.walk(node) if isinstance(a, ast.arg)}
    for have, want in mapping.items():
        if want in used and want not in mapping:
            raise AnalysisError(f"cannot canonicalise `{have}` → `{want}` in {getattr(node, 'name', '?')}: `{want}` is already another variable there")
