"""Self-test catalogue: V = violating variant (must add a finding), B = benign
variant (must add none).  Pure data; every entry is an exact text edit of the
current tree (`old` must occur exactly once in the file)."""
from __future__ import annotations

from typing import Dict, List

CATALOGUE: List[Dict] = []

ERRORS = "chuk_mcp/protocol/types/errors.py"
SENDMSG = "chuk_mcp/protocol/messages/send_message.py"
BATCH = "chuk_mcp/protocol/features/batching.py"
VERSIONING = "chuk_mcp/protocol/types/versioning.py"
STDIO = "chuk_mcp/transports/stdio/stdio_client.py"
HANDLER = "chuk_mcp/server/protocol_handler.py"
SERVER = "chuk_mcp/server/server.py"
INIT = "chuk_mcp/protocol/messages/initialize/send_messages.py"
MEMORY = "chuk_mcp/server/session/memory.py"
SBASE = "chuk_mcp/server/session/base.py"
JSONRPC = "chuk_mcp/protocol/messages/json_rpc_message.py"
HTTP = "chuk_mcp/transports/http/transport.py"
SSE = "chuk_mcp/transports/sse/transport.py"
FASTJSON = "chuk_mcp/protocol/fast_json.py"
PBASE = "chuk_mcp/protocol/mcp_pydantic_base.py"
CONFIG = "chuk_mcp/config.py"
SRVMGR = "chuk_mcp/mcp_client/host/server_manager.py"
PING = "chuk_mcp/protocol/messages/ping/send_messages.py"
RESOURCES = "chuk_mcp/protocol/messages/resources/send_messages.py"
TOOLS_SEND = "chuk_mcp/protocol/messages/tools/send_messages.py"
NOTIF = "chuk_mcp/protocol/messages/notifications.py"


def M(prop, kind, name, rel, old, new, expect=None, more=()):
    CATALOGUE.append({"prop": prop, "kind": kind, "name": name, "edits": [(rel, old, new)] + list(more), "expect": expect})


def for_property(prop: str) -> List[Dict]:
    return [m for m in CATALOGUE if m["prop"] == prop]


# ------------------------------------------------------------------------------ C07
M("C07", "V", "code in both sets", ERRORS, "    INTERNAL_ERROR,  # Server might recover\n", "    INTERNAL_ERROR,  # Server might recover\n    INVALID_PARAMS,\n", "R1")
M("C07", "V", "named code in neither set", ERRORS, "    MCP_RESOURCE_NOT_FOUND,  # Resource might become available\n", "", "R1")
M("C07", "V", "classifier by RETRYABLE_ERRORS", ERRORS, "    return code not in NON_RETRYABLE_ERRORS\n", "    return code in RETRYABLE_ERRORS\n", "R2")
M("C07", "V", "classifier raises on unknown code", ERRORS, "    return code not in NON_RETRYABLE_ERRORS\n",
  "    if code not in NON_RETRYABLE_ERRORS and code not in RETRYABLE_ERRORS:\n        raise ValueError(code)\n    return code not in NON_RETRYABLE_ERRORS\n", "R2")
M("C07", "V", "helper swallows errors", TOOLS_SEND,
  "    response = await send_message(\n        read_stream=read_stream,\n        write_stream=write_stream,\n        method=MessageMethod.TOOLS_CALL,\n        params=params,\n        timeout=timeout,\n    )\n",
  "    try:\n        response = await send_message(\n            read_stream=read_stream,\n            write_stream=write_stream,\n            method=MessageMethod.TOOLS_CALL,\n            params=params,\n            timeout=timeout,\n        )\n    except Exception:\n        response = {\"content\": [], \"isError\": True}\n", "R4")
M("C07", "V", "raise without the code", SENDMSG, "            raise RetryableError(msg, code)\n", "            raise RetryableError(msg, -32603)\n", "R3")
M("C07", "V", "error branch returns for data-less errors", SENDMSG, "        if is_retryable_error(code):\n", "        if code == 0:\n            return error\n        if is_retryable_error(code):\n", "R3")
M("C07", "V", "classes swapped", SENDMSG, "            raise RetryableError(msg, code)\n        raise NonRetryableError(msg, code)\n", "            raise NonRetryableError(msg, code)\n        raise RetryableError(msg, code)\n", "R3")
M("C07", "V", "ping re-raises instead of False", PING, "        # failed\n        return False\n", "        # failed\n        raise\n", "R4")
M("C07", "V", "exception drops .code", ERRORS, "        self.code = code\n        self.data = data\n", "        self.code = INTERNAL_ERROR\n        self.data = data\n", "R3")
M("C07", "B", "reorder set elements", ERRORS, "    PARSE_ERROR,  # JSON parsing error is permanent\n    INVALID_REQUEST,  # Invalid request structure is permanent\n",
  "    INVALID_REQUEST,  # Invalid request structure is permanent\n    PARSE_ERROR,  # JSON parsing error is permanent\n")
M("C07", "B", "classifier as if/return", ERRORS, "    return code not in NON_RETRYABLE_ERRORS\n", "    if code in NON_RETRYABLE_ERRORS:\n        return False\n    return True\n")
M("C07", "B", "rename local in processor", SENDMSG, "        code = error.get(\"code\", -32603)\n        msg = (\n            f\"JSON-RPC Error: {error.get('message', get_error_message(code))}\"\n            f\" (code: {code})\"\n        )\n        if is_retryable_error(code):\n            raise RetryableError(msg, code)\n        raise NonRetryableError(msg, code)\n",
  "        err_code = error.get(\"code\", -32603)\n        text = (\n            f\"JSON-RPC Error: {error.get('message', get_error_message(err_code))}\"\n            f\" (code: {err_code})\"\n        )\n        if not is_retryable_error(err_code):\n            raise NonRetryableError(text, err_code)\n        raise RetryableError(text, err_code)\n")

# ------------------------------------------------------------------------------ C13
M("C13", "V", "day > 18", BATCH, "day >= 18", "day > 18", "R1")
M("C13", "V", "month >= 6", BATCH, "elif year == 2025 and month > 6:", "elif year == 2025 and month >= 6:", "R1")
M("C13", "V", "swap month/day indices", BATCH, "        month = int(version_parts[1])\n        day = int(version_parts[2])\n", "        month = int(version_parts[2])\n        day = int(version_parts[1])\n", "R1")
M("C13", "V", "year >= 2025", BATCH, "        if year > 2025:", "        if year >= 2025:", "R1")
M("C13", "V", "None means no batching", BATCH, "        logger.debug(\"No protocol version specified, assuming batching support\")\n        return True\n", "        logger.debug(\"No protocol version specified, assuming batching support\")\n        return False\n", "R1")
M("C13", "V", "deliver after reject", STDIO, "            await self._send_error_response(error_response)\n            return\n", "            await self._send_error_response(error_response)\n", "R3")
M("C13", "V", "reject without error write", STDIO, "            await self._send_error_response(error_response)\n            return\n", "            return\n", "R3")
M("C13", "V", "rejection code -32601", BATCH, "                \"code\": -32600,  # Invalid Request\n", "                \"code\": -32601,  # Invalid Request\n", "R3")
M("C13", "V", "gate ignores the mode", BATCH, "        return self.batching_enabled\n", "        return True\n", "R3")
M("C13", "V", "mode not recomputed on version update", BATCH, "        self.protocol_version = version\n        self.batching_enabled = supports_batching(version)\n", "        self.protocol_version = version\n", "R1")
M("C13", "V", "batch member handler leaves loop", STDIO, "                        logger.error(\"Error processing batch item: %s\", exc)\n", "                        logger.error(\"Error processing batch item: %s\", exc)\n                        break\n", "R3")
M("C13", "V", "compare inverted", VERSIONING, "        return 1 if version1 > version2 else -1\n", "        return 1 if version1 < version2 else -1\n", "R2")
M("C13", "V", "format allows 1-digit month", VERSIONING, 'pattern = r"^\\d{4}-\\d{2}-\\d{2}$"', 'pattern = r"^\\d{4}-\\d{1,2}-\\d{2}$"', "R2")
M("C13", "B", "cascade as tuple comparison", BATCH,
  "        if year > 2025:\n            logger.debug(\n                f\"Protocol version {protocol_version} does not support batching (year > 2025)\"\n            )\n            return False\n        elif year == 2025 and month > 6:\n            logger.debug(\n                f\"Protocol version {protocol_version} does not support batching (month > 6)\"\n            )\n            return False\n        elif year == 2025 and month == 6 and day >= 18:\n",
  "        if (year, month, day) >= (2025, 6, 18):\n")
M("C13", "B", "cascade as nested ifs", BATCH, "        elif year == 2025 and month == 6 and day >= 18:\n", "        elif year == 2025 and month == 6 and not day < 18:\n")
M("C13", "B", "rename parts variable", BATCH, "        version_parts = protocol_version.split(\"-\")\n        if len(version_parts) != 3:", "        vp = protocol_version.split(\"-\")\n        version_parts = vp\n        if len(vp) != 3:")
