"""Self-test catalogue: V = violating variant (must add a finding), B = benign
variant (must add none).  Pure data; every entry is an exact text edit of the
current tree (`old` must occur exactly once in the file)."""
from __future__ import annotations

from typing import Dict, List

CATALOGUE: List[Dict] = []

ERRORS = "chuk_mcp/protocol/types/errors.py"
SENDMSG = "chuk_mcp/protocol/messages/send_message.py"
BATCH = "chuk_mcp/protocol/features/batching.py"
VERSIONING = "chuk_mcp/protocol/types/versioning.py"
STDIO = "chuk_mcp/transports/stdio/stdio_client.py"
HANDLER = "chuk_mcp/server/protocol_handler.py"
SERVER = "chuk_mcp/server/server.py"
INIT = "chuk_mcp/protocol/messages/initialize/send_messages.py"
MEMORY = "chuk_mcp/server/session/memory.py"
SBASE = "chuk_mcp/server/session/base.py"
JSONRPC = "chuk_mcp/protocol/messages/json_rpc_message.py"
HTTP = "chuk_mcp/transports/http/transport.py"
SSE = "chuk_mcp/transports/sse/transport.py"
FASTJSON = "chuk_mcp/protocol/fast_json.py"
PBASE = "chuk_mcp/protocol/mcp_pydantic_base.py"
CONFIG = "chuk_mcp/config.py"
SRVMGR = "chuk_mcp/mcp_client/host/server_manager.py"
PING = "chuk_mcp/protocol/messages/ping/send_messages.py"
RESOURCES = "chuk_mcp/protocol/messages/resources/send_messages.py"
TOOLS_SEND = "chuk_mcp/protocol/messages/tools/send_messages.py"
NOTIF = "chuk_mcp/protocol/messages/notifications.py"


def M(prop, kind, name, rel, old, new, expect=None, more=()):
    CATALOGUE.append({"prop": prop, "kind": kind, "name": name, "edits": [(rel, old, new)] + list(more), "expect": expect})


def for_property(prop: str) -> List[Dict]:
    return [m for m in CATALOGUE if m["prop"] == prop]


# ------------------------------------------------------------------------------ C07
M("C07", "V", "code in both sets", ERRORS, "    INTERNAL_ERROR,  # Server might recover\n", "    INTERNAL_ERROR,  # Server might recover\n    INVALID_PARAMS,\n", "R1")
M("C07", "V", "named code in neither set", ERRORS, "    MCP_RESOURCE_NOT_FOUND,  # Resource might become available\n", "", "R1")
M("C07", "V", "classifier by RETRYABLE_ERRORS", ERRORS, "    return code not in NON_RETRYABLE_ERRORS\n", "    return code in RETRYABLE_ERRORS\n", "R2")
M("C07", "V", "classifier raises on unknown code", ERRORS, "    return code not in NON_RETRYABLE_ERRORS\n",
  "    if code not in NON_RETRYABLE_ERRORS and code not in RETRYABLE_ERRORS:\n        raise ValueError(code)\n    return code not in NON_RETRYABLE_ERRORS\n", "R2")
M("C07", "V", "helper swallows errors", TOOLS_SEND,
  "    response = await send_message(\n        read_stream=read_stream,\n        write_stream=write_stream,\n        method=MessageMethod.TOOLS_CALL,\n        params=params,\n        timeout=timeout,\n    )\n",
  "    try:\n        response = await send_message(\n            read_stream=read_stream,\n            write_stream=write_stream,\n            method=MessageMethod.TOOLS_CALL,\n            params=params,\n            timeout=timeout,\n        )\n    except Exception:\n        response = {\"content\": [], \"isError\": True}\n", "R4")
M("C07", "V", "raise without the code", SENDMSG, "            raise RetryableError(msg, code)\n", "            raise RetryableError(msg, -32603)\n", "R3")
M("C07", "V", "error branch returns for data-less errors", SENDMSG, "        if is_retryable_error(code):\n", "        if code == 0:\n            return error\n        if is_retryable_error(code):\n", "R3")
M("C07", "V", "classes swapped", SENDMSG, "            raise RetryableError(msg, code)\n        raise NonRetryableError(msg, code)\n", "            raise NonRetryableError(msg, code)\n        raise RetryableError(msg, code)\n", "R3")
M("C07", "V", "ping re-raises instead of False", PING, "        # failed\n        return False\n", "        # failed\n        raise\n", "R4")
M("C07", "V", "exception drops .code", ERRORS, "        self.code = code\n        self.data = data\n", "        self.code = INTERNAL_ERROR\n        self.data = data\n", "R3")
M("C07", "B", "reorder set elements", ERRORS, "    PARSE_ERROR,  # JSON parsing error is permanent\n    INVALID_REQUEST,  # Invalid request structure is permanent\n",
  "    INVALID_REQUEST,  # Invalid request structure is permanent\n    PARSE_ERROR,  # JSON parsing error is permanent\n")
M("C07", "B", "classifier as if/return", ERRORS, "    return code not in NON_RETRYABLE_ERRORS\n", "    if code in NON_RETRYABLE_ERRORS:\n        return False\n    return True\n")
M("C07", "B", "rename local in processor", SENDMSG, "        code = error.get(\"code\", -32603)\n        msg = (\n            f\"JSON-RPC Error: {error.get('message', get_error_message(code))}\"\n            f\" (code: {code})\"\n        )\n        if is_retryable_error(code):\n            raise RetryableError(msg, code)\n        raise NonRetryableError(msg, code)\n",
  "        err_code = error.get(\"code\", -32603)\n        text = (\n            f\"JSON-RPC Error: {error.get('message', get_error_message(err_code))}\"\n            f\" (code: {err_code})\"\n        )\n        if not is_retryable_error(err_code):\n            raise NonRetryableError(text, err_code)\n        raise RetryableError(text, err_code)\n")

# ------------------------------------------------------------------------------ C13
M("C13", "V", "day > 18", BATCH, "day >= 18", "day > 18", "R1")
M("C13", "V", "month >= 6", BATCH, "elif year == 2025 and month > 6:", "elif year == 2025 and month >= 6:", "R1")
M("C13", "V", "swap month/day indices", BATCH, "        month = int(version_parts[1])\n        day = int(version_parts[2])\n", "        month = int(version_parts[2])\n        day = int(version_parts[1])\n", "R1")
M("C13", "V", "year >= 2025", BATCH, "        if year > 2025:", "        if year >= 2025:", "R1")
M("C13", "V", "None means no batching", BATCH, "        logger.debug(\"No protocol version specified, assuming batching support\")\n        return True\n", "        logger.debug(\"No protocol version specified, assuming batching support\")\n        return False\n", "R1")
M("C13", "V", "deliver after reject", STDIO, "            await self._send_error_response(error_response)\n            return\n", "            await self._send_error_response(error_response)\n", "R3")
M("C13", "V", "reject without error write", STDIO, "            await self._send_error_response(error_response)\n            return\n", "            return\n", "R3")
M("C13", "V", "rejection code -32601", BATCH, "                \"code\": -32600,  # Invalid Request\n", "                \"code\": -32601,  # Invalid Request\n", "R3")
M("C13", "V", "gate ignores the mode", BATCH, "        return self.batching_enabled\n", "        return True\n", "R3")
M("C13", "V", "mode not recomputed on version update", BATCH, "        self.protocol_version = version\n        self.batching_enabled = supports_batching(version)\n", "        self.protocol_version = version\n", "R1")
M("C13", "V", "batch member handler leaves loop", STDIO, "                        logger.error(\"Error processing batch item: %s\", exc)\n", "                        logger.error(\"Error processing batch item: %s\", exc)\n                        break\n", "R3")
M("C13", "V", "compare inverted", VERSIONING, "        return 1 if version1 > version2 else -1\n", "        return 1 if version1 < version2 else -1\n", "R2")
M("C13", "V", "format allows 1-digit month", VERSIONING, 'pattern = r"^\\d{4}-\\d{2}-\\d{2}$"', 'pattern = r"^\\d{4}-\\d{1,2}-\\d{2}$"', "R2")
M("C13", "B", "cascade as tuple comparison", BATCH,
  "        if year > 2025:\n            logger.debug(\n                f\"Protocol version {protocol_version} does not support batching (year > 2025)\"\n            )\n            return False\n        elif year == 2025 and month > 6:\n            logger.debug(\n                f\"Protocol version {protocol_version} does not support batching (month > 6)\"\n            )\n            return False\n        elif year == 2025 and month == 6 and day >= 18:\n",
  "        if (year, month, day) >= (2025, 6, 18):\n")
M("C13", "B", "cascade as nested ifs", BATCH, "        elif year == 2025 and month == 6 and day >= 18:\n", "        elif year == 2025 and month == 6 and not day < 18:\n")
M("C13", "B", "rename parts variable", BATCH, "        version_parts = protocol_version.split(\"-\")\n        if len(version_parts) != 3:", "        vp = protocol_version.split(\"-\")\n        version_parts = vp\n        if len(vp) != 3:")

# ------------------------------------------------------------------------------ C19
M("C19", "V", "expiry >=", MEMORY, "if now - session.last_activity > max_age", "if now - session.last_activity >= max_age", "R4")
M("C19", "V", "expiry by created_at", MEMORY, "if now - session.last_activity > max_age", "if now - session.created_at > max_age", "R4")
M("C19", "V", "list returns the live dict", MEMORY, "        return self.sessions.copy()\n", "        return self.sessions\n", "R5")
M("C19", "V", "id truncated", SBASE, '        return str(uuid.uuid4()).replace("-", "")\n', '        return str(uuid.uuid4()).replace("-", "")[:8]\n', "R1")
M("C19", "V", "id not from uuid4", SBASE, '        return str(uuid.uuid4()).replace("-", "")\n', '        return str(len(getattr(self, "sessions", {})))\n', "R1")
M("C19", "V", "delete without guard returns True", MEMORY, "        if session_id in self.sessions:\n            del self.sessions[session_id]\n            return True\n        return False\n", "        self.sessions.pop(session_id, None)\n        return True\n", "R3")
M("C19", "V", "update creates missing session", MEMORY, "        if session_id in self.sessions:\n            self.sessions[session_id].last_activity = time.time()\n            return True\n        return False\n",
  "        if session_id in self.sessions:\n            self.sessions[session_id].last_activity = time.time()\n            return True\n        self.sessions[session_id] = None\n        return False\n", "R3")
M("C19", "V", "create swaps version and client info", MEMORY, "            client_info=client_info,\n            protocol_version=protocol_version,\n", "            client_info=client_info,\n            protocol_version=str(client_info),\n", "R2")
M("C19", "V", "create stores under a different key", MEMORY, "        self.sessions[session_id] = session\n", "        self.sessions[session_id[:16]] = session\n", "R2")
M("C19", "V", "cleanup deletes everything selected plus clear", MEMORY, "        return len(expired)\n", "        if len(expired) > 10:\n            self.sessions.clear()\n        return len(expired)\n", "R4")
M("C19", "V", "get refreshes nothing but pops", MEMORY, "        return self.sessions.get(session_id)\n", "        return self.sessions.pop(session_id, None)\n", "R3")
M("C19", "B", "dict() instead of copy()", MEMORY, "        return self.sessions.copy()\n", "        return dict(self.sessions)\n")
M("C19", "B", "comprehension as loop", MEMORY,
  "        expired = [\n            sid\n            for sid, session in self.sessions.items()\n            if now - session.last_activity > max_age\n        ]\n",
  "        expired = []\n        for sid, session in self.sessions.items():\n            if now - session.last_activity > max_age:\n                expired.append(sid)\n")
M("C19", "B", "guard inverted", MEMORY, "        if session_id in self.sessions:\n            del self.sessions[session_id]\n            return True\n        return False\n", "        if session_id not in self.sessions:\n            return False\n        del self.sessions[session_id]\n        return True\n")

# ------------------------------------------------------------------------------ C04
_GUARD = "        if not ProtocolVersion.is_supported(protocol_version):\n            # Never acknowledge a version we do not speak: answer with ours\n            protocol_version = CURRENT_VERSION\n"
M("C04", "V", "guard removed (pre-fix code)", HANDLER, _GUARD, "", "R1")
M("C04", "V", "fallback is an unsupported constant", HANDLER, "            protocol_version = CURRENT_VERSION\n", "            protocol_version = \"2025-01-01\"\n", "R1")
M("C04", "V", "session gets the requested version", HANDLER, "        new_session_id = self.session_manager.create_session(\n            client_info, protocol_version\n        )\n",
  "        new_session_id = self.session_manager.create_session(\n            client_info, params.get(\"protocolVersion\", \"2025-03-26\")\n        )\n", None)
M("C04", "V", "guard only checks the format", HANDLER, "        if not ProtocolVersion.is_supported(protocol_version):", "        if not ProtocolVersion.validate_format(str(protocol_version)):", "R1")
M("C04", "V", "is_supported accepts any well-formed date", VERSIONING, "        return version in SUPPORTED_VERSIONS\n", "        return version in SUPPORTED_VERSIONS or ProtocolVersion.validate_format(version)\n", "R1")
M("C04", "V", "answer echoes the request, session the checked one", HANDLER, "            \"protocolVersion\": protocol_version,\n", "            \"protocolVersion\": params.get(\"protocolVersion\", protocol_version),\n", "R1")
M("C04", "B", "if-in-else form", HANDLER, _GUARD, "        if protocol_version in SUPPORTED_VERSIONS:\n            pass\n        else:\n            protocol_version = CURRENT_VERSION\n",
  more=[(HANDLER, "from ..protocol.types.versioning import CURRENT_VERSION, ProtocolVersion\n", "from ..protocol.types.versioning import CURRENT_VERSION, ProtocolVersion, SUPPORTED_VERSIONS\n")])
M("C04", "B", "fallback literal that is supported", HANDLER, "            protocol_version = CURRENT_VERSION\n", "            protocol_version = \"2024-11-05\"\n")

# ------------------------------------------------------------------------------ C03
M("C03", "V", "accept any well-formed date", INIT, "        elif server_version in supported_versions:\n", "        elif ProtocolVersion.validate_format(server_version):\n", "R2")
M("C03", "V", "notify before the check", INIT, "        server_version = str(init_result.protocolVersion)\n", "        server_version = str(init_result.protocolVersion)\n        await send_initialized_notification(write_stream)\n", "R3")
M("C03", "V", "notify in the mismatch handler", INIT, "    except VersionMismatchError:\n        # Re-raise version mismatch errors (client should disconnect)\n        raise\n",
  "    except VersionMismatchError:\n        # Re-raise version mismatch errors (client should disconnect)\n        await send_initialized_notification(write_stream)\n        raise\n", "R3")
M("C03", "V", "mismatch only logged", INIT, "            raise VersionMismatchError(proposed_version, [server_version])\n", "            logging.error(\"continuing anyway\")\n", "R2")
M("C03", "V", "propose SUPPORTED_VERSIONS[0] ignoring the list", INIT, "        proposed_version = supported_versions[0]\n", "        proposed_version = SUPPORTED_VERSIONS[0]\n", "R1")
M("C03", "V", "preferred proposed without membership", INIT, "    if preferred_version and preferred_version in supported_versions:\n", "    if preferred_version:\n", "R1")
M("C03", "V", "returns the proposal not the answer", INIT, "        return init_result\n\n    except VersionMismatchError:", "        init_result.protocolVersion = proposed_version\n        return InitializeResult(protocolVersion=proposed_version, capabilities=init_result.capabilities, serverInfo=init_result.serverInfo)\n\n    except VersionMismatchError:", None)
M("C03", "V", "tracker records the preferred version", INIT, "        client.set_protocol_version(result.protocolVersion)\n", "        client.set_protocol_version(preferred_version or result.protocolVersion)\n", "R4")
M("C03", "V", "notification never sent", INIT, "        await send_initialized_notification(write_stream)\n\n        logging.debug(f\"MCP initialization complete", "        logging.debug(f\"MCP initialization complete", "R3")
M("C03", "V", "sender swallows write failure", INIT, "        logging.error(f\"Error sending initialized notification: {e}\")\n        raise\n", "        logging.error(f\"Error sending initialized notification: {e}\")\n", "R3")
M("C03", "V", "stdio client forgets the batch processor", STDIO, "        self.batch_processor.update_protocol_version(version)\n", "        self.batch_processor.protocol_version = version\n", None)
M("C03", "V", "acceptance compares with the preferred not the proposed", INIT, "        if server_version == proposed_version:\n", "        if server_version == preferred_version:\n", "R2")
M("C03", "B", "or instead of elif", INIT, "        if server_version == proposed_version:\n            # Server accepted our proposed version\n            logging.debug(f\"Version negotiation successful: {server_version}\")\n        elif server_version in supported_versions:\n",
  "        if server_version == proposed_version or server_version in supported_versions:\n")
M("C03", "B", "hoist logging", INIT, "        logging.debug(f\"Proposing MCP protocol version: {proposed_version}\")\n", "        pass\n")
M("C03", "B", "rename server_version", INIT, "        server_version = str(init_result.protocolVersion)\n\n        if server_version == proposed_version:", "        server_version = sv = str(init_result.protocolVersion)\n\n        if sv == proposed_version:")

# ------------------------------------------------------------------------------ C01
_IDTEST = "        if msg_id != req_id:\n            logging.debug(\"[send_message] skip unmatched id=%s\", msg_id)\n            continue\n"
_METHTEST = "        if msg_method is not None:\n            logging.debug(\"[send_message] skip non-response method=%s\", msg_method)\n            continue\n"
M("C01", "V", "id test deleted", SENDMSG, _IDTEST, "", "R1")
M("C01", "V", "method test deleted (pre-fix code)", SENDMSG, _METHTEST, "", "R1")
M("C01", "V", "method test only skips notifications", SENDMSG, "        if msg_method is not None:\n            logging.debug(\"[send_message] skip non-response", "        if msg_method is not None and getattr(msg, \"id\", None) is None:\n            logging.debug(\"[send_message] skip non-response", "R1")
M("C01", "V", "break on unmatched", SENDMSG, "            logging.debug(\"[send_message] skip unmatched id=%s\", msg_id)\n            continue\n", "            logging.debug(\"[send_message] skip unmatched id=%s\", msg_id)\n            break\n", "R3")
M("C01", "V", "list test deleted", SENDMSG, "        if isinstance(msg, list):\n            continue\n", "", "R1")
M("C01", "V", "second send", SENDMSG, "    await write_stream.send(message)\n", "    await write_stream.send(message)\n    if timeout > 30:\n        await write_stream.send(message)\n", "R2")
M("C01", "V", "send after wait starts", SENDMSG, "    await write_stream.send(message)\n\n    with anyio.fail_after(timeout):\n        return await _await_response(",
  "    with anyio.fail_after(timeout):\n        if not cancellation_token:\n            await write_stream.send(message)\n        return await _await_response(", "R2")
M("C01", "V", "id compared as strings", SENDMSG, "        if msg_id != req_id:\n", "        if str(msg_id) != str(req_id):\n", "R1")
M("C01", "V", "wait for a different id than sent", SENDMSG, "    message = create_request(method=method, params=params, id=req_id)\n", "    message = create_request(method=method, params=params, id=message_id)\n", "R2")
M("C01", "V", "request drops params", SENDMSG, "    message = create_request(method=method, params=params, id=req_id)\n", "    message = create_request(method=method, params=None if not params else params.get(\"arguments\"), id=req_id)\n", "R2")
M("C01", "V", "give up after idle polls with a default", SENDMSG, "        except TimeoutError:\n            continue  # let outer timer count down\n", "        except TimeoutError:\n            if sub_timeout > 5:\n                return {}\n            continue  # let outer timer count down\n", "R3")
M("C01", "V", "returns whatever matched first of two ids", SENDMSG, "        if msg_id != req_id:\n", "        if msg_id != req_id and msg_id is not None:\n", "R1")
M("C01", "V", "helper sends on swapped streams", TOOLS_SEND, "    response = await send_message(\n        read_stream=read_stream,\n        write_stream=write_stream,\n        method=MessageMethod.TOOLS_CALL,",
  "    response = await send_message(\n        read_stream=write_stream,\n        write_stream=read_stream,\n        method=MessageMethod.TOOLS_CALL,", "R4")
M("C01", "B", "rename locals", SENDMSG, "        msg_id = getattr(msg, \"id\", None)\n        if msg_id != req_id:\n            logging.debug(\"[send_message] skip unmatched id=%s\", msg_id)\n", "        got = getattr(msg, \"id\", None)\n        if got != req_id:\n            logging.debug(\"[send_message] skip unmatched id=%s\", got)\n")
M("C01", "B", "nested if instead of continue", SENDMSG, "        if isinstance(msg, list):\n            continue\n\n        logging.debug(\"[send_message] matched response: %s\", msg.model_dump())\n        return _process_response(msg)\n",
  "        if not isinstance(msg, list):\n            logging.debug(\"[send_message] matched response: %s\", msg.model_dump())\n            return _process_response(msg)\n")
M("C01", "B", "list test moved first", SENDMSG, "        msg_method = getattr(msg, \"method\", None)\n        if (\n            progress_token", "        if isinstance(msg, list):\n            continue\n        msg_method = getattr(msg, \"method\", None)\n        if (\n            progress_token")
M("C01", "B", "equality spelled the other way round", SENDMSG, "        if msg_id != req_id:\n", "        if not (req_id == msg_id):\n")

# ------------------------------------------------------------------------------ C18
M("C18", "V", "id test deleted", SENDMSG, _IDTEST, "", "R1")
M("C18", "V", "method test deleted", SENDMSG, _METHTEST, "", "R1")
M("C18", "B", "rename locals", SENDMSG, "        msg_id = getattr(msg, \"id\", None)\n        if msg_id != req_id:\n            logging.debug(\"[send_message] skip unmatched id=%s\", msg_id)\n", "        got = getattr(msg, \"id\", None)\n        if got != req_id:\n            logging.debug(\"[send_message] skip unmatched id=%s\", got)\n")

# ------------------------------------------------------------------------------ C14
M("C14", "V", "wait outside fail_after", SENDMSG, "    with anyio.fail_after(timeout):\n        return await _await_response(", "    if True:\n        return await _await_response(", "R1")
M("C14", "V", "deadline from a different value", SENDMSG, "    with anyio.fail_after(timeout):\n        return await _await_response(", "    with anyio.fail_after(max(timeout, 60.0)):\n        return await _await_response(", "R1")
M("C14", "V", "poll handler swallows everything", SENDMSG, "        except TimeoutError:\n            continue  # let outer timer count down\n", "        except BaseException:\n            continue  # let outer timer count down\n", "R2")
M("C14", "V", "poll timeout handler covers the whole iteration", SENDMSG, "        try:\n            with anyio.fail_after(sub_timeout):\n                msg = await read_stream.receive()\n        except TimeoutError:\n            continue  # let outer timer count down\n",
  "        try:\n            with anyio.fail_after(sub_timeout):\n                msg = await read_stream.receive()\n            await anyio.sleep(0)\n        except TimeoutError:\n            continue  # let outer timer count down\n", "R2")
M("C14", "V", "check after receive", SENDMSG, "        # Check for cancellation\n        if cancellation_check:\n            await cancellation_check()\n\n        try:\n            with anyio.fail_after(sub_timeout):\n                msg = await read_stream.receive()\n        except TimeoutError:\n            continue  # let outer timer count down\n",
  "        try:\n            with anyio.fail_after(sub_timeout):\n                msg = await read_stream.receive()\n        except TimeoutError:\n            continue  # let outer timer count down\n        if cancellation_check:\n            await cancellation_check()\n", "R3")
M("C14", "V", "unbounded receive", SENDMSG, "            with anyio.fail_after(sub_timeout):\n                msg = await read_stream.receive()\n", "            if True:\n                msg = await read_stream.receive()\n", None)
M("C14", "V", "caller overrides the poll interval with the timeout", SENDMSG, "            read_stream,\n            req_id,\n            cancellation_check=", "            read_stream,\n            req_id,\n            sub_timeout=timeout,\n            cancellation_check=", "R3")
M("C14", "V", "cancel does not raise", SENDMSG, "            raise CancelledError(f\"Request {req_id} was cancelled\")\n", "            return\n", "R4")
M("C14", "V", "cancel notification names another id", SENDMSG, "                    write_stream, req_id, \"Cancelled by client\"\n", "                    write_stream, message_id, \"Cancelled by client\"\n", "R4")
M("C14", "V", "cancelled request still sent", SENDMSG, "    # Check for cancellation before sending\n    if cancellation_token:\n        await check_and_send_cancellation()\n\n    logging.debug(\"[send_message] sending %s\", method)\n    await write_stream.send(message)\n",
  "    logging.debug(\"[send_message] sending %s\", method)\n    await write_stream.send(message)\n    if cancellation_token:\n        await check_and_send_cancellation()\n", "R4")
M("C14", "V", "callback for any token", SENDMSG, "            if params.get(\"progressToken\") == progress_token:\n", "            if params.get(\"progressToken\"):\n", "R5")
M("C14", "V", "no handler around callback", SENDMSG, "                try:\n                    await progress_callback(\n                        params.get(\"progress\", 0),\n                        params.get(\"total\"),\n                        params.get(\"message\"),\n                    )\n                except Exception as e:\n                    logging.error(f\"Error in progress callback: {e}\")\n                continue",
  "                await progress_callback(\n                    params.get(\"progress\", 0),\n                    params.get(\"total\"),\n                    params.get(\"message\"),\n                )\n                continue", "R5")
M("C14", "V", "callback handler re-raises", SENDMSG, "                    logging.error(f\"Error in progress callback: {e}\")\n", "                    logging.error(f\"Error in progress callback: {e}\")\n                    raise\n", "R5")
M("C14", "V", "callback gets total twice", SENDMSG, "                        params.get(\"total\"),\n                        params.get(\"message\"),\n", "                        params.get(\"total\"),\n                        params.get(\"total\"),\n", "R5")
M("C14", "V", "token sent differs from token awaited", SENDMSG, "        params[\"_meta\"][\"progressToken\"] = progress_token\n", "        params[\"_meta\"][\"progressToken\"] = str(uuid.uuid4())\n", "R5")
M("C14", "B", "rename sub_timeout default kept", SENDMSG, "    sub_timeout: float = 0.5,\n", "    sub_timeout: float = 0.25,\n")
M("C14", "B", "logging added before check", SENDMSG, "        # Check for cancellation\n        if cancellation_check:\n", "        logging.debug(\"poll\")\n        if cancellation_check:\n")

# ------------------------------------------------------------------------------ C08
M("C08", "V", "notification guard removed on lookup miss (pre-fix)", HANDLER, "        if not handler:\n            if is_notification:\n                return None, None\n", "        if not handler:\n", "R")
M("C08", "V", "notification guard removed in except (pre-fix)", HANDLER, "            logging.error(f\"Handler error for {method}: {e}\")\n            if is_notification:\n                return None, None\n", "            logging.error(f\"Handler error for {method}: {e}\")\n", "R")
M("C08", "V", "failing notification handler result returned", HANDLER, "            result = await handler(message, session_id)\n            if is_notification:\n                return None, None\n            return result\n", "            result = await handler(message, session_id)\n            return result\n", "R3")
M("C08", "V", "-32600 for unknown method", HANDLER, "                msg_id, -32601, f\"Method not found: {method}\"", "                msg_id, -32600, f\"Method not found: {method}\"", "R4")
M("C08", "V", "handler call outside try", HANDLER, "        try:\n            result = await handler(message, session_id)\n            if is_notification:\n                return None, None\n            return result\n        except Exception as e:\n",
  "        result = await handler(message, session_id)\n        try:\n            if is_notification:\n                return None, None\n            return result\n        except Exception as e:\n", "R2")
M("C08", "V", "response id from the session not the message", HANDLER, "        msg_id = getattr(message, \"id\", None)\n        return self.create_response(msg_id, {}), None\n", "        msg_id = session_id or getattr(message, \"id\", None)\n        return self.create_response(msg_id, {}), None\n", "R3")
M("C08", "V", "attribute access on message in dispatcher", HANDLER, "        msg_id = getattr(message, \"id\", None)\n        is_notification = msg_id is None\n", "        msg_id = message.id\n        is_notification = msg_id is None\n", "R")
M("C08", "V", "unknown tool → -32601", SERVER, "                message.id, -32602, f\"Unknown tool: {tool_name}\"", "                message.id, -32601, f\"Unknown tool: {tool_name}\"", "R4")
M("C08", "V", "tool failure → -32000", SERVER, "                message.id, -32603, f\"Tool execution error: {str(e)}\"", "                message.id, -32000, f\"Tool execution error: {str(e)}\"", "R4")
M("C08", "V", "resource handler invoked outside try", SERVER, "        try:\n            resource_info = self._resources[uri]\n            content = await resource_info[\"handler\"]()\n", "        resource_info = self._resources[uri]\n        content = await resource_info[\"handler\"]()\n        try:\n", "R4")
M("C08", "V", "session activity update can raise before dispatch", HANDLER, "        if not method:\n            if is_notification:\n                return None, None\n            return self.create_error_response(msg_id, -32600, \"Invalid request\"), None\n", "        if not method:\n            return self.create_error_response(msg_id, -32600, \"Invalid request\"), None\n", "R")
M("C08", "V", "except arm logs via message.method", HANDLER, "            logging.error(f\"Handler error for {method}: {e}\")\n", "            logging.error(f\"Handler error for {message.method}: {e}\")\n", "R2")
M("C08", "B", "error construction extracted into a helper call order", HANDLER, "        is_notification = msg_id is None\n", "        is_notification = msg_id is None\n        logging.debug(\"dispatch\")\n")
M("C08", "B", "guard spelled with msg_id is None", HANDLER, "        if not handler:\n            if is_notification:\n                return None, None\n", "        if not handler:\n            if msg_id is None:\n                return None, None\n")

# ------------------------------------------------------------------------------ C05
M("C05", "V", "stateless decode (pre-fix code)", STDIO, "buffer += decoder.decode(chunk)", "buffer += chunk.decode(\"utf-8\")", "R1")
M("C05", "V", "stateless decode with errors=replace", STDIO, "buffer += decoder.decode(chunk)", "buffer += chunk.decode(\"utf-8\", errors=\"replace\")", "R1")
M("C05", "V", "decoder created per chunk", STDIO, "                    buffer += decoder.decode(chunk)\n", "                    decoder = codecs.getincrementaldecoder(\"utf-8\")(errors=\"replace\")\n                    buffer += decoder.decode(chunk)\n",
  more=[(STDIO, "            decoder = codecs.getincrementaldecoder(\"utf-8\")(errors=\"replace\")\n            logger.debug(\"stdout_reader started\")\n", "            logger.debug(\"stdout_reader started\")\n")])
M("C05", "V", "strict incremental decoder outside the per-line handler", STDIO, "codecs.getincrementaldecoder(\"utf-8\")(errors=\"replace\")", "codecs.getincrementaldecoder(\"utf-8\")()", "R3")
M("C05", "V", "latin-1 decoder", STDIO, "codecs.getincrementaldecoder(\"utf-8\")(errors=\"replace\")", "codecs.getincrementaldecoder(\"latin-1\")(errors=\"replace\")", "R1")
M("C05", "V", "splitlines", STDIO, "                lines = buffer.split(\"\\n\")\n", "                lines = buffer.splitlines()\n", "R2")
M("C05", "V", "carry-over dropped", STDIO, "                buffer = lines[-1]\n", "                buffer = \"\"\n", "R2")
M("C05", "V", "last fragment processed too", STDIO, "                for line in lines[:-1]:\n", "                for line in lines:\n", "R2")
M("C05", "V", "per-line handler breaks", STDIO, "                        logger.error(\"JSON decode error: %s  [line: %.120s]\", exc, line)\n", "                        logger.error(\"JSON decode error: %s  [line: %.120s]\", exc, line)\n                        break\n", "R3")
M("C05", "V", "per-line handler only for JSON errors", STDIO, "                    except Exception as exc:\n                        logger.error(\"Error processing message: %s\", exc)\n                        logger.debug(\"Traceback:\\n%s\", traceback.format_exc())\n", "", "R3")
M("C05", "V", "notifications only on the notification stream", STDIO, "            # Also send to main stream for general listeners\n            try:\n                await self._incoming_send.send(msg)  # type: ignore[union-attr]\n            except anyio.BrokenResourceError:\n                pass\n\n            return  # Early", "            return  # Early", "R4")
M("C05", "V", "notifications not offered on the notification stream", STDIO, "                self._notify_send.send_nowait(msg)  # type: ignore[union-attr]\n", "                pass\n", "R4")
M("C05", "V", "routing spawned as a task", STDIO, "                        await self._process_message_data(data)\n", "                        self.tg.start_soon(self._process_message_data, data)\n", "R4")
M("C05", "B", "rename buffer", STDIO, "                lines = buffer.split(\"\\n\")\n                buffer = lines[-1]\n\n                for line in lines[:-1]:\n", "                parts = buffer.split(\"\\n\")\n                buffer = parts[-1]\n\n                for line in parts[:-1]:\n")
M("C05", "B", "decoder via codecs.lookup", STDIO, "codecs.getincrementaldecoder(\"utf-8\")(errors=\"replace\")", "codecs.lookup(\"utf-8\").incrementaldecoder(errors=\"replace\")")
M("C05", "B", "ignore instead of replace", STDIO, "(errors=\"replace\")", "(errors=\"ignore\")")

# ------------------------------------------------------------------------------ C06
_STRFIX = "                        if \"\\n\" in json_str or \"\\r\" in json_str:\n                            # One message, one line: re-encode compactly\n                            json_str = json.dumps(json.loads(json_str))\n"
M("C06", "V", "raw str pass-through (pre-fix code)", STDIO, _STRFIX, "", "R2")
M("C06", "V", "only LF tested, CR passes", STDIO, "                        if \"\\n\" in json_str or \"\\r\" in json_str:\n", "                        if \"\\n\" in json_str:\n", "R2")
M("C06", "V", "indent=2 on dict path", STDIO, "                        json_str = json.dumps(message)\n                        msg_method = message.get(\"method\")", "                        json_str = json.dumps(message, indent=2)\n                        msg_method = message.get(\"method\")", "R2")
M("C06", "V", "no trailing LF", STDIO, "                    await self.process.stdin.send(f\"{json_str}\\n\".encode())\n\n                    # Enhanced logging", "                    await self.process.stdin.send(f\"{json_str}\".encode())\n\n                    # Enhanced logging", "R1")
M("C06", "V", "CRLF terminator", STDIO, "                    await self.process.stdin.send(f\"{json_str}\\n\".encode())\n\n                    # Enhanced logging", "                    await self.process.stdin.send(f\"{json_str}\\r\\n\".encode())\n\n                    # Enhanced logging", "R1")
M("C06", "V", "latin-1 encoding", STDIO, "                    await self.process.stdin.send(f\"{json_str}\\n\".encode())\n\n                    # Enhanced logging", "                    await self.process.stdin.send(f\"{json_str}\\n\".encode(\"latin-1\"))\n\n                    # Enhanced logging", "R1")
M("C06", "V", "handler returns (writer stops)", STDIO, "                    logger.debug(\"Traceback:\\n%s\", traceback.format_exc())\n                    continue\n", "                    logger.debug(\"Traceback:\\n%s\", traceback.format_exc())\n                    return\n", "R4")
M("C06", "V", "handler only for TypeError", STDIO, "                except Exception as exc:\n                    logger.error(\"Error serializing message in stdin_writer: %s\", exc)", "                except TypeError as exc:\n                    logger.error(\"Error serializing message in stdin_writer: %s\", exc)", "R4")
M("C06", "V", "no aclose", STDIO, "            if self.process and self.process.stdin:\n                await self.process.stdin.aclose()\n        except Exception as e:\n            logger.error(f\"stdin_writer error: {e}\")", "        except Exception as e:\n            logger.error(f\"stdin_writer error: {e}\")", "R5")
M("C06", "V", "exclude_none dropped on the model path", STDIO, "                            json_str = model_dump_json_method(exclude_none=True)\n", "                            json_str = model_dump_json_method()\n", "R3")
M("C06", "V", "message written twice when large", STDIO, "                    await self.process.stdin.send(f\"{json_str}\\n\".encode())\n\n                    # Enhanced logging", "                    await self.process.stdin.send(f\"{json_str}\\n\".encode())\n                    if len(json_str) > 65536:\n                        await self.process.stdin.send(f\"{json_str}\\n\".encode())\n\n                    # Enhanced logging", "R1")
M("C06", "V", "fast_json appends newline", FASTJSON, "            options = 0\n            if kwargs.get(\"indent\"):\n                options |= _orjson.OPT_INDENT_2\n\n            return _orjson.dumps(obj, option=options).decode(\"utf-8\")", "            options = _orjson.OPT_APPEND_NEWLINE\n            if kwargs.get(\"indent\"):\n                options |= _orjson.OPT_INDENT_2\n\n            return _orjson.dumps(obj, option=options).decode(\"utf-8\")", "R2")
M("C06", "B", "type dispatch reordered", STDIO, "                    if isinstance(message, str):\n                        # Raw string message (already JSON)\n", "                    if isinstance(message, (str,)):\n                        # Raw string message (already JSON)\n")
M("C06", "B", "explicit utf-8", STDIO, "                    await self.process.stdin.send(f\"{json_str}\\n\".encode())\n\n                    # Enhanced logging", "                    await self.process.stdin.send(f\"{json_str}\\n\".encode(\"utf-8\"))\n\n                    # Enhanced logging")

# ------------------------------------------------------------------------------ C20
MAIN = "chuk_mcp/__main__.py"
M("C20", "V", "tuple passed to stdio_client (pre-fix code)", SRVMGR, "                server_params, _ = await load_config(config_file, sname)\n", "                server_params = await load_config(config_file, sname)\n", "R1")
M("C20", "V", "CLI passes the tuple", MAIN, "        server_params, _ = await load_config(config_path, server_name)\n", "        server_params = await load_config(config_path, server_name)\n", "R1")
M("C20", "V", "command joined into one string", STDIO, "                [self.server.command, *self.server.args],\n", "                \" \".join([self.server.command, *self.server.args]),\n", "R3")
M("C20", "V", "env not passed", STDIO, "                env=env,\n                stderr=subprocess.DEVNULL if suppress_stderr else sys.stderr,", "                stderr=subprocess.DEVNULL if suppress_stderr else sys.stderr,", "R3")
M("C20", "V", "args dropped at spawn", STDIO, "                [self.server.command, *self.server.args],\n", "                [self.server.command],\n", "R3")
M("C20", "V", "loader swallows unknown server", CONFIG, "    except ValueError as e:\n        # error\n        logging.error(str(e))\n        raise\n", "    except ValueError as e:\n        # error\n        logging.error(str(e))\n        return None, None\n", "R4")
M("C20", "V", "missing file becomes ValueError", CONFIG, "        raise FileNotFoundError(error_msg)\n", "        raise ValueError(error_msg)\n", "R4")
M("C20", "V", "loader reads env from the wrong key", CONFIG, "            env=server_config.get(\"env\"),\n", "            env=server_config.get(\"environment\"),\n", "R2")
M("C20", "V", "loader takes the first server whatever the name", CONFIG, "        server_config = config.get(\"mcpServers\", {}).get(server_name)\n", "        server_config = next(iter(config.get(\"mcpServers\", {}).values()), None)\n", "R2")
M("C20", "V", "args default shared with command", CONFIG, "            args=server_config.get(\"args\", []),\n", "            args=server_config.get(\"args\", [server_config[\"command\"]]),\n", "R2")
M("C20", "B", "unpack with a named timeout", SRVMGR, "                server_params, _ = await load_config(config_file, sname)\n", "                server_params, _timeout = await load_config(config_file, sname)\n")
M("C20", "B", "rename in CLI", MAIN, "        server_params, _ = await load_config(config_path, server_name)\n", "        server_params, _unused = await load_config(config_path, server_name)\n")

# ------------------------------------------------------------------------------ C09
CONTENT = "chuk_mcp/protocol/types/content.py"
COMPLETIONS = "chuk_mcp/protocol/messages/completions/send_messages.py"
SAMPLING = "chuk_mcp/protocol/messages/sampling/send_messages.py"
M("C09", "V", "Literal case removed (pre-fix code)", PBASE, "        if origin is Literal:\n            if value in get_args(expected):\n                return value\n            raise ValidationError(\n                f\"value must be one of {get_args(expected)}\",\n                current_path,\n                \"literal_error\",\n            )\n", "", "R3")
M("C09", "V", "exact-type pass removed (pre-fix code)", PBASE, "            for union_type in non_none_args:\n                if inspect.isclass(union_type) and type(value) is union_type:\n                    return value\n", "", "R5")
M("C09", "V", "Optional[Union] collapses to first member (pre-fix code)", PBASE, "            return args[0] if len(args) == 1 else Union[args]\n", "            return args[0]\n", "R5")
M("C09", "V", "CompletionResult delegation removed (pre-fix code)", COMPLETIONS, "    def model_post_init(self, __context) -> None:\n        \"\"\"Pydantic never calls __post_init__; enforce the same invariant there.\"\"\"\n        self.__post_init__()\n", "", "R1")
M("C09", "V", "new __post_init__ invariant on TextContent", CONTENT, "    text: str\n    \"\"\"The text content of the message.\"\"\"\n", "    text: str\n    \"\"\"The text content of the message.\"\"\"\n\n    def __post_init__(self):\n        if len(self.text) > 1000000:\n            raise ValueError(\"text too long\")\n", "R1")
M("C09", "V", "constraint keyword the fallback does not know", CONTENT, "    priority: Optional[float] = Field(None, ge=0.0, le=1.0)\n", "    priority: Optional[float] = Field(None, ge=0.0, le=1.0, multiple_of=0.25)\n", "R2")
M("C09", "V", "fallback stops enforcing bounds", PBASE, "                        if field is not None:\n                            _check_constraints(name, validated_value, field.kwargs)  # type: ignore[attr-defined]\n", "", "R2")
M("C09", "V", "Optional without default", CONTENT, "    annotations: Optional[Annotations] = None\n    \"\"\"Optional annotations for the client.\"\"\"\n\n    model_config = {\"extra\": \"allow\"}\n\n\nclass ImageContent", "    annotations: Optional[Annotations]\n    \"\"\"Optional annotations for the client.\"\"\"\n\n    model_config = {\"extra\": \"allow\"}\n\n\nclass ImageContent", "R4")
M("C09", "V", "audio tag widened to str", CONTENT, "    type: Literal[\"audio\"] = \"audio\"\n", "    type: str = \"audio\"\n", "R3")
M("C09", "V", "image tag also accepts audio", CONTENT, "    type: Literal[\"image\"] = \"image\"\n", "    type: Literal[\"image\", \"audio\"] = \"image\"\n", "R3")
M("C09", "V", "dispatcher no longer calls model_post_init", PBASE, "            model_post_init = getattr(self, \"model_post_init\", None)\n            if callable(model_post_init):\n                model_post_init(None)\n", "", "R1")
M("C09", "V", "envelope id typed str-first", JSONRPC, "RequestId = Union[int, str]\n", "RequestId = Union[str, int, float]\n", "R5")
M("C09", "B", "new field with a default", CONTENT, "    text: str\n    \"\"\"The text content of the message.\"\"\"\n", "    text: str\n    \"\"\"The text content of the message.\"\"\"\n\n    language: Optional[str] = None\n")
M("C09", "B", "non-validating __post_init__", CONTENT, "    text: str\n    \"\"\"The text content of the message.\"\"\"\n", "    text: str\n    \"\"\"The text content of the message.\"\"\"\n\n    def __post_init__(self):\n        pass\n")

# ------------------------------------------------------------------------------ C10
TYPES_TOOLS = "chuk_mcp/protocol/types/tools.py"
ELICIT = "chuk_mcp/protocol/types/elicitation.py"
TOOL_PY = "chuk_mcp/protocol/messages/tools/tool.py"
M("C10", "V", "by_alias dropped in tool_result_to_dict (pre-fix code)", TYPES_TOOLS, "        return result.model_dump(exclude_none=True, by_alias=True)\n", "        return result.model_dump(exclude_none=True)\n", "R1")
M("C10", "V", "by_alias dropped in elicitation (pre-fix code)", ELICIT, "            \"params\": params.model_dump(exclude_none=True, by_alias=True),\n", "            \"params\": params.model_dump(exclude_none=True),\n", "R1")
M("C10", "V", "extra=ignore on one class", TOOL_PY, "model_config = {\"extra\": \"allow\"}", "model_config = {\"extra\": \"ignore\"}", "R2")
M("C10", "V", "meta without alias", TOOL_PY, "    meta: Optional[Dict[str, Any]] = Field(default=None, alias=\"_meta\")\n", "    meta: Optional[Dict[str, Any]] = None\n", "R3")
M("C10", "V", "fallback drops leftover keys", PBASE, "            # Add extra fields (allow by default)\n            values.update(data)\n", "", "R2")
M("C10", "V", "fallback ignores by_alias on output", PBASE, "                if by_alias and key in self.__class__.__field_aliases__:\n                    output_key = self.__class__.__field_aliases__[key]\n", "", "R3")
M("C10", "V", "envelope gets an aliased member", JSONRPC, "class JSONRPCRequest(McpPydanticBase):\n    \"\"\"A request that expects a response.\"\"\"\n\n    jsonrpc: Literal[\"2.0\"] = \"2.0\"\n", "class JSONRPCRequest(McpPydanticBase):\n    \"\"\"A request that expects a response.\"\"\"\n\n    jsonrpc: Literal[\"2.0\"] = \"2.0\"\n    meta: Optional[Dict[str, Any]] = Field(default=None, alias=\"_meta\")\n",
  "R1", more=[(JSONRPC, "from chuk_mcp.protocol.mcp_pydantic_base import McpPydanticBase, ConfigDict\n", "from chuk_mcp.protocol.mcp_pydantic_base import McpPydanticBase, ConfigDict, Field\n")])
M("C10", "V", "new untyped dump site", "chuk_mcp/protocol/messages/tools/send_messages.py", "    return ToolResult.model_validate(response)\n", "    out = ToolResult.model_validate(response)\n    logging_copy: Any = out\n    _ = logging_copy.model_dump()\n    return out\n", "R1",
  more=[("chuk_mcp/protocol/messages/tools/send_messages.py", "from typing import", "from typing import Any as _AnyUnused, ")])
M("C10", "B", "exclude_none added", "chuk_mcp/server/protocol_handler.py", "            \"serverInfo\": self.server_info.model_dump(),\n", "            \"serverInfo\": self.server_info.model_dump(exclude_none=True),\n")

# ------------------------------------------------------------------------------ C17
M("C17", "V", "OPT_APPEND_NEWLINE", FASTJSON, "            options = 0\n            if kwargs.get(\"indent\"):\n                options |= _orjson.OPT_INDENT_2\n\n            return _orjson.dumps(obj, option=options).decode(\"utf-8\")", "            options = _orjson.OPT_APPEND_NEWLINE\n            if kwargs.get(\"indent\"):\n                options |= _orjson.OPT_INDENT_2\n\n            return _orjson.dumps(obj, option=options).decode(\"utf-8\")", "R2")
M("C17", "V", "OPT_STRICT_INTEGER without the fallback arm", FASTJSON,
  "        try:\n            # orjson options for compatibility with stdlib json\n            # OPT_INDENT_2 for pretty printing if indent kwarg present\n            options = 0\n            if kwargs.get(\"indent\"):\n                options |= _orjson.OPT_INDENT_2\n\n            return _orjson.dumps(obj, option=options).decode(\"utf-8\")\n        except Exception as e:\n            # Fallback to stdlib json if orjson fails (e.g., unsupported types)\n            logger.debug(f\"orjson failed, falling back to stdlib json: {e}\")\n            return _stdlib_json.dumps(obj, **kwargs)\n    else:",
  "        options = _orjson.OPT_STRICT_INTEGER\n        if kwargs.get(\"indent\"):\n            options |= _orjson.OPT_INDENT_2\n        return _orjson.dumps(obj, option=options).decode(\"utf-8\")\n    elif kwargs.get(\"never\"):\n        return _stdlib_json.dumps(obj, **kwargs)\n    else:", "R2")
M("C17", "V", "decode latin-1", FASTJSON, "            return _orjson.dumps(obj, option=options).decode(\"utf-8\")", "            return _orjson.dumps(obj, option=options).decode(\"latin-1\")", "R1")
M("C17", "V", "post-processing of the encoded text", FASTJSON, "            return _orjson.dumps(obj, option=options).decode(\"utf-8\")", "            return _orjson.dumps(obj, option=options).decode(\"utf-8\").replace(\"\\u2028\", \"\")", "R1")
M("C17", "V", "always indent", FASTJSON, "            if kwargs.get(\"indent\"):\n                options |= _orjson.OPT_INDENT_2\n\n            return _orjson.dumps(", "            options |= _orjson.OPT_INDENT_2\n\n            return _orjson.dumps(", "R2")
M("C17", "V", "stdlib loads with parse_float", FASTJSON, "        if isinstance(s, bytes):\n            s = s.decode(\"utf-8\")\n        return _stdlib_json.loads(s)\n\n\ndef dump(", "        if isinstance(s, bytes):\n            s = s.decode(\"utf-8\")\n        return _stdlib_json.loads(s, parse_float=str)\n\n\ndef dump(", "R")
M("C17", "V", "loads strips input", FASTJSON, "            return _orjson.loads(s)\n        except Exception as e:\n            # Fallback to stdlib json if orjson fails", "            return _orjson.loads(s.strip())\n        except Exception as e:\n            # Fallback to stdlib json if orjson fails", "R1")
M("C17", "V", "indent at a frame writer", STDIO, "                json_str = json.dumps(error_response)\n", "                json_str = json.dumps(error_response, indent=2)\n", "R3")
M("C17", "B", "alias renamed", FASTJSON, "            return _orjson.dumps(obj, option=options).decode(\"utf-8\")", "            return _orjson.dumps(obj, option=options).decode(\"utf8\")")
M("C17", "B", "OPT_SORT_KEYS", FASTJSON, "            options = 0\n            if kwargs.get(\"indent\"):\n                options |= _orjson.OPT_INDENT_2\n\n            return _orjson.dumps(obj, option=options).decode(\"utf-8\")", "            options = _orjson.OPT_SORT_KEYS\n            if kwargs.get(\"indent\"):\n                options |= _orjson.OPT_INDENT_2\n\n            return _orjson.dumps(obj, option=options).decode(\"utf-8\")")

# ------------------------------------------------------------------------------ C16
_SHIELD = "        finally:\n            # Reached also when the caller's scope was cancelled mid-shutdown:\n            # never leave the child running behind us.\n            if self.process and self.process.returncode is None:\n                with anyio.CancelScope(shield=True):\n                    try:\n                        await self._terminate_process()\n                    except Exception as e:\n                        logger.debug(f\"Error during stdio client shutdown: {e}\")\n"
M("C16", "V", "shielded finally removed (pre-fix code)", STDIO, _SHIELD, "", "R2")
M("C16", "V", "finally without shield", STDIO, "                with anyio.CancelScope(shield=True):\n                    try:\n                        await self._terminate_process()\n", "                if True:\n                    try:\n                        await self._terminate_process()\n", "R2")
M("C16", "V", "shield=False", STDIO, "                with anyio.CancelScope(shield=True):\n", "                with anyio.CancelScope(shield=False):\n", "R2")
M("C16", "V", "wait without fail_after", STDIO, "                    # Reduced timeout from 5s to 1s\n                    with anyio.fail_after(1.0):\n                        await self.process.wait()\n                except TimeoutError:\n                    # Changed from WARNING to DEBUG level\n                    logger.debug(\"Graceful term timed out - killing …\")",
  "                    # Reduced timeout from 5s to 1s\n                    if True:\n                        await self.process.wait()\n                except TimeoutError:\n                    # Changed from WARNING to DEBUG level\n                    logger.debug(\"Graceful term timed out - killing …\")", "R1")
M("C16", "V", "kill before terminate", STDIO, "                logger.debug(\"Terminating subprocess…\")\n                self.process.terminate()\n", "                logger.debug(\"Terminating subprocess…\")\n                self.process.kill()\n                self.process.terminate()\n", "R1")
M("C16", "V", "grace periods 5 s", STDIO, "                    with anyio.fail_after(1.0):\n                        await self.process.wait()\n                except TimeoutError:\n                    # Changed from WARNING to DEBUG level\n                    logger.debug(\"Graceful term timed out - killing …\")", "                    with anyio.fail_after(5.0):\n                        await self.process.wait()\n                except TimeoutError:\n                    # Changed from WARNING to DEBUG level\n                    logger.debug(\"Graceful term timed out - killing …\")", "R1")
M("C16", "V", "no kill on timeout", STDIO, "                    logger.debug(\"Graceful term timed out - killing …\")\n                    self.process.kill()\n", "                    logger.debug(\"Graceful term timed out - killing …\")\n", "R1")
M("C16", "V", "spawn failure swallowed", STDIO, "        except Exception as e:\n            logger.error(f\"Error starting stdio client: {e}\")\n            raise\n", "        except Exception as e:\n            logger.error(f\"Error starting stdio client: {e}\")\n            return self\n", "R4")
M("C16", "V", "__aexit__ swallows the body's exception", STDIO, "                    except Exception as e:\n                        logger.debug(f\"Error during stdio client shutdown: {e}\")\n\n        return False\n", "                    except Exception as e:\n                        logger.debug(f\"Error during stdio client shutdown: {e}\")\n\n        return True\n", "R3")
M("C16", "V", "terminate skipped when the task group errors", STDIO, "            if self.process and self.process.returncode is None:\n                await self._terminate_process()\n\n        except Exception as e:\n            logger.debug(f\"Error during stdio client shutdown: {e}\")\n        finally:\n            # Reached also when the caller's scope was cancelled mid-shutdown:\n            # never leave the child running behind us.\n            if self.process and self.process.returncode is None:",
  "            if self.process and self.process.returncode is None:\n                await self._terminate_process()\n\n        except Exception as e:\n            logger.debug(f\"Error during stdio client shutdown: {e}\")\n        finally:\n            # Reached also when the caller's scope was cancelled mid-shutdown:\n            # never leave the child running behind us.\n            if self.process and self.process.returncode is None and exc_type is None:", "R2")
M("C16", "V", "fabricated empty result when the child died", STDIO, "        else:\n            # No legacy stream - just log for debugging\n            logger.debug(f\"Received message for unknown id: {msg_id}\")\n", "        else:\n            # No legacy stream - just log for debugging\n            logger.debug(f\"Received message for unknown id: {msg_id}\")\n            _placeholder = {\"jsonrpc\": \"2.0\", \"id\": msg_id, \"result\": {}}\n", "R5")
M("C16", "B", "logging reordered", STDIO, "                logger.debug(\"Terminating subprocess…\")\n                self.process.terminate()\n", "                self.process.terminate()\n                logger.debug(\"Terminating subprocess…\")\n")
M("C16", "B", "shield around the finally's if", STDIO, "            if self.process and self.process.returncode is None:\n                with anyio.CancelScope(shield=True):\n                    try:\n                        await self._terminate_process()\n                    except Exception as e:\n                        logger.debug(f\"Error during stdio client shutdown: {e}\")\n",
  "            with anyio.CancelScope(shield=True):\n                if self.process and self.process.returncode is None:\n                    try:\n                        await self._terminate_process()\n                    except Exception as e:\n                        logger.debug(f\"Error during stdio client shutdown: {e}\")\n")

# ------------------------------------------------------------------------------ C02
M("C02", "V", "synthesised dict loses jsonrpc version", HTTP, "                            \"jsonrpc\": \"2.0\",\n                            \"id\": message_id,\n                            \"error\": {\n                                \"code\": -32603,\n                                \"message\": f\"HTTP {response.status_code}: {error_text}\",",
  "                            \"jsonrpc\": \"2\",\n                            \"id\": message_id,\n                            \"error\": {\n                                \"code\": -32603,\n                                \"message\": f\"HTTP {response.status_code}: {error_text}\",", "R2")
M("C02", "V", "string error code", HTTP, "                                \"error\": {\"code\": -32700, \"message\": \"Parse error\"},\n", "                                \"error\": {\"code\": \"-32700\", \"message\": \"Parse error\"},\n", "R2")
M("C02", "V", "result and error together", ELICIT, "                \"error\": {\"code\": -32603, \"message\": f\"Elicitation error: {str(e)}\"},\n", "                \"result\": {},\n                \"error\": {\"code\": -32603, \"message\": f\"Elicitation error: {str(e)}\"},\n", "R2")
M("C02", "V", "error message not a string", BATCH, "                        \"message\": f\"Internal error processing batch item: {str(e)}\",\n", "                        \"message\": e,\n", "R2")
M("C02", "V", "exclude_none dropped at the sse serialiser", SSE, "message.model_dump(exclude_none=True)", "message.model_dump()", "R4")
M("C02", "V", "parser cascade arms swapped", JSONRPC, "    if has_method and has_id:\n        # Request\n        return JSONRPCRequest.model_validate(data)\n    elif has_method and not has_id:\n        # Notification\n        return JSONRPCNotification.model_validate(data)\n    elif has_id and has_result and not has_error:\n        # Success response\n        return JSONRPCResponse.model_validate(data)\n    elif has_id and has_error and not has_result:\n        # Error response\n        return JSONRPCError.model_validate(data)\n",
  "    if has_method and has_id:\n        # Request\n        return JSONRPCRequest.model_validate(data)\n    elif has_method and not has_id:\n        # Notification\n        return JSONRPCNotification.model_validate(data)\n    elif has_id and has_error and not has_result:\n        # Success response\n        return JSONRPCResponse.model_validate(data)\n    elif has_id and has_result and not has_error:\n        # Error response\n        return JSONRPCError.model_validate(data)\n", "R3")
M("C02", "V", "legacy class accepts result together with error", JSONRPC, "            if self.result is not None and self.error is not None:\n                raise ValueError(\"Response cannot have both result and error\")\n", "", "R3")
M("C02", "V", "is_notification ignores the id", JSONRPC, "        return self.method is not None and self.id is None\n", "        return self.method is not None\n", "R3")
M("C02", "V", "Optional id on the request class", JSONRPC, "class JSONRPCRequest(McpPydanticBase):\n    \"\"\"A request that expects a response.\"\"\"\n\n    jsonrpc: Literal[\"2.0\"] = \"2.0\"\n    id: RequestId\n", "class JSONRPCRequest(McpPydanticBase):\n    \"\"\"A request that expects a response.\"\"\"\n\n    jsonrpc: Literal[\"2.0\"] = \"2.0\"\n    id: Optional[RequestId] = None\n", "R1")
M("C02", "V", "notification class gains an id", JSONRPC, "class JSONRPCNotification(McpPydanticBase):\n    \"\"\"A notification which does not expect a response.\"\"\"\n\n    jsonrpc: Literal[\"2.0\"] = \"2.0\"\n", "class JSONRPCNotification(McpPydanticBase):\n    \"\"\"A notification which does not expect a response.\"\"\"\n\n    jsonrpc: Literal[\"2.0\"] = \"2.0\"\n    id: Optional[RequestId] = None\n", "R1")
M("C02", "V", "error class stops checking the code type", JSONRPC, "            if \"code\" not in self.error or not isinstance(self.error[\"code\"], int):\n                raise ValueError(\"Error must have an integer 'code' field\")\n", "", "R1")
M("C02", "V", "success response fabricated for notifications too", HTTP, "                                # For notifications, this is fine\n                                if not message_id:\n                                    return\n", "", "R2")
M("C02", "V", "float ids allowed", JSONRPC, "RequestId = Union[int, str]\n", "RequestId = Union[int, str, float]\n", "R1")
M("C02", "V", "elicitation request built with id=None", ELICIT, "            \"id\": request_id,\n            \"params\": params.model_dump(exclude_none=True, by_alias=True),", "            \"id\": None,\n            \"params\": params.model_dump(exclude_none=True, by_alias=True),", "R2")
M("C02", "B", "dict keys reordered", HTTP, "                                \"jsonrpc\": \"2.0\",\n                                \"id\": message_id,\n                                \"error\": {\"code\": -32700, \"message\": \"Parse error\"},\n", "                                \"id\": message_id,\n                                \"jsonrpc\": \"2.0\",\n                                \"error\": {\"message\": \"Parse error\", \"code\": -32700},\n")
M("C02", "B", "named code constant", HTTP, "                                \"error\": {\"code\": -32700, \"message\": \"Parse error\"},\n", "                                \"error\": {\"code\": PARSE_ERROR_CODE, \"message\": \"Parse error\"},\n",
  more=[(HTTP, "logger = logging.getLogger(__name__)\n", "logger = logging.getLogger(__name__)\nPARSE_ERROR_CODE = -32700\n")])

# ------------------------------------------------------------------------------ C11
M("C11", "V", "≥400 synthesis removed", HTTP, "                        await self._route_response(error_response)\n                        return\n\n                    # Extract session ID", "                        return\n\n                    # Extract session ID", "R1")
M("C11", "V", "synthesise twice on the exception arm", HTTP, "                    error_response = {\n                        \"jsonrpc\": \"2.0\",\n                        \"id\": message_id,\n                        \"error\": {\"code\": -32603, \"message\": str(e)},\n                    }\n                    await self._route_response(error_response)\n\n        except Exception as e:\n            logger.error(f\"Error in HTTP message sending: {e}\")",
  "                    error_response = {\n                        \"jsonrpc\": \"2.0\",\n                        \"id\": message_id,\n                        \"error\": {\"code\": -32603, \"message\": str(e)},\n                    }\n                    await self._route_response(error_response)\n                    await self._route_response(error_response)\n\n        except Exception as e:\n            logger.error(f\"Error in HTTP message sending: {e}\")", "R1")
M("C11", "V", "timeout arm only logs", HTTP, "                    error_response = {\n                        \"jsonrpc\": \"2.0\",\n                        \"id\": message_id,\n                        \"error\": {\"code\": -32000, \"message\": \"Request timeout\"},\n                    }\n                    await self._route_response(error_response)\n", "                    pass\n", "R1")
M("C11", "V", "202 return for requests too (pre-fix code)", HTTP, "                            if response.status_code == 202 and not message_id:\n", "                            if response.status_code == 202:\n", "R1")
M("C11", "V", "synthesised error carries a different id", HTTP, "                            \"jsonrpc\": \"2.0\",\n                            \"id\": message_id,\n                            \"error\": {\n                                \"code\": -32603,\n                                \"message\": f\"HTTP {response.status_code}: {error_text}\",", "                            \"jsonrpc\": \"2.0\",\n                            \"id\": self._session_id,\n                            \"error\": {\n                                \"code\": -32603,\n                                \"message\": f\"HTTP {response.status_code}: {error_text}\",", "R1")
M("C11", "V", "data: requires the space again (pre-fix code)", HTTP, "                elif line.startswith(\"data:\"):\n                    data = line[5:]  # Keep formatting\n                    if data.startswith(\" \"):\n                        data = data[1:]\n", "                elif line.startswith(\"data: \"):\n                    data = line[6:]  # Keep formatting\n", "R2")
M("C11", "V", "optional space not stripped", HTTP, "                    data = line[5:]  # Keep formatting\n                    if data.startswith(\" \"):\n                        data = data[1:]\n                    event_data.append(data)\n\n            # Process any remaining event\n            if event_data:\n                await self._process_sse_event(\n                    current_event or \"message\", event_data, message_id\n                )\n\n        except Exception as e:\n            logger.error(f\"Error processing SSE text: {e}\")",
  "                    data = line[5:]  # Keep formatting\n                    event_data.append(data)\n\n            # Process any remaining event\n            if event_data:\n                await self._process_sse_event(\n                    current_event or \"message\", event_data, message_id\n                )\n\n        except Exception as e:\n            logger.error(f\"Error processing SSE text: {e}\")", "R2")
M("C11", "V", "comments parsed as data", HTTP, "                if line.startswith(\"event:\"):\n                    current_event = line[6:].strip()\n", "                if line.startswith(\":\"):\n                    event_data.append(line[1:])\n                elif line.startswith(\"event:\"):\n                    current_event = line[6:].strip()\n", "R2")
M("C11", "V", "dispatch requires an event field again (pre-fix code)", HTTP, "                if not line:\n                    # Empty line marks end of event\n                    if event_data:\n", "                if not line:\n                    # Empty line marks end of event\n                    if current_event and event_data:\n", "R2")
M("C11", "V", "array bodies not split (pre-fix code)", HTTP, "        if isinstance(response_data, list):\n            for item in response_data:\n                await self._route_response(item)\n            return\n", "", "R3")
M("C11", "V", "session id cached at construction", HTTP, "            if self._session_id:\n                headers[\"Mcp-Session-Id\"] = self._session_id\n", "            if self._session_id:\n                headers[\"Mcp-Session-Id\"] = self.parameters.session_id\n", "R5")
M("C11", "V", "session id updated after dispatch", HTTP, "                    # Extract session ID from response if provided\n                    if \"mcp-session-id\" in response.headers:\n                        self._session_id = response.headers[\"mcp-session-id\"]\n                        logger.debug(f\"Updated session ID: {self._session_id}\")\n\n                    content_type = response.headers.get(\"content-type\", \"\")\n\n                    if \"application/json\" in content_type:\n                        # Immediate JSON response\n                        try:\n                            response_data = response.json()\n                            logger.debug(\n                                f\"Got immediate JSON response for {message_id}\"\n                            )\n                            await self._route_response(response_data)\n",
  "                    content_type = response.headers.get(\"content-type\", \"\")\n\n                    if \"application/json\" in content_type:\n                        # Immediate JSON response\n                        try:\n                            response_data = response.json()\n                            logger.debug(\n                                f\"Got immediate JSON response for {message_id}\"\n                            )\n                            await self._route_response(response_data)\n                            if \"mcp-session-id\" in response.headers:\n                                self._session_id = response.headers[\"mcp-session-id\"]\n", "R5")
M("C11", "V", "sender loop ends on the first error", HTTP, "    async def _send_message_via_http(self, message) -> None:\n        \"\"\"Send a message via HTTP POST with streamable response handling.\"\"\"\n        # Use semaphore to limit concurrent requests\n        async with self._request_semaphore:\n            await self._send_message_internal(message)\n",
  "    async def _send_message_via_http(self, message) -> None:\n        \"\"\"Send a message via HTTP POST with streamable response handling.\"\"\"\n        # Use semaphore to limit concurrent requests\n        async with self._request_semaphore:\n            await self._send_message_internal(message)\n            if not self._connected.is_set():\n                raise RuntimeError(\"transport closed\")\n", "R4")
M("C11", "V", "router validation outside its try", HTTP, "        try:\n            from chuk_mcp.protocol.messages.json_rpc_message import JSONRPCMessage\n\n            # Create JSON-RPC message\n            message = JSONRPCMessage.model_validate(response_data)  # type: ignore[attr-defined]\n",
  "        from chuk_mcp.protocol.messages.json_rpc_message import JSONRPCMessage\n\n        message = JSONRPCMessage.model_validate(response_data)  # type: ignore[attr-defined]\n        try:\n", "R1")
M("C11", "B", "logging changes", HTTP, "                    logger.debug(f\"HTTP response status: {response.status_code}\")\n", "                    logger.info(f\"HTTP response status: {response.status_code}\")\n")
M("C11", "B", "data prefix via removeprefix", HTTP, "                    data = line[5:]  # Keep formatting\n                    if data.startswith(\" \"):\n                        data = data[1:]\n                    event_data.append(data)\n\n            # Process any remaining event\n            if event_data:\n                await self._process_sse_event(\n                    current_event or \"message\", event_data, message_id\n                )\n\n        except Exception as e:\n            logger.error(f\"Error processing SSE text: {e}\")",
  "                    data = line[5:].removeprefix(\" \")\n                    event_data.append(data)\n\n            # Process any remaining event\n            if event_data:\n                await self._process_sse_event(\n                    current_event or \"message\", event_data, message_id\n                )\n\n        except Exception as e:\n            logger.error(f\"Error processing SSE text: {e}\")")
