"""Idiom normalisation: equivalent spellings are rewritten, on the parsed tree only, into the one spelling the rules
read.  Every rewrite is a semantic identity of Python (stated next to it); positions are kept (copy_location), the
source text is untouched.  What cannot be rewritten safely is left alone and the rule that meets it decides
(usually exit 2).

N1  X.a if hasattr(X, "a") else D                        ->  getattr(X, "a", D)          (X a plain name/attribute chain)
N1s if hasattr(X, "a"): v = X.a  else: v = D             ->  v = getattr(X, "a", D)
N1t try: v = X.a  except AttributeError: v = D           ->  v = getattr(X, "a", D)
N2  M[k] if k in M else D                                ->  M.get(k, D)                 (k, M plain names/attribute chains/constants)
N2s if k in M: v = M[k]  else: v = D                     ->  v = M.get(k, D)
N3  "..{}..{}..".format(a, b)   (only {} / {0} fields)   ->  f"..{a}..{b}.."
N5  return A if c else B                                 ->  if c: return A  else: return B
N11 dumps = json.dumps  (function-level, bound once) … dumps(x)   ->  json.dumps(x)
N8  f(**{"a": x})                                         ->  f(a=x)
N9  dict() / list() / tuple()                              ->  {} / [] / ()
N7  x = A if c else B                                      ->  if c: x = A  else: x = B
N6  d = {}; d["a"] = x; d["b"] = y   (consecutive)         ->  d = {"a": x, "b": y}
N4  match S: case C(): … case "x": … case _: …           ->  if isinstance(S, C): … elif S == "x": … else: …
    (class patterns without sub-patterns, value/singleton patterns, or-patterns of those, bare wildcard; anything that
     binds a name is left as it is)
"""
from __future__ import annotations

import ast
import copy
import re
from typing import List, Optional


def _simple_ref(n: ast.AST) -> bool:
    """a name, an attribute chain on a name, or a constant: evaluating it twice is the same as once"""
    while isinstance(n, ast.Attribute):
        n = n.value
    return isinstance(n, (ast.Name, ast.Constant))


def _same(a: ast.AST, b: ast.AST) -> bool:
    return ast.dump(a) == ast.dump(b)


def _hasattr_of(test: ast.AST):
    if isinstance(test, ast.Call) and isinstance(test.func, ast.Name) and test.func.id == "hasattr" and len(test.args) == 2 and not test.keywords:
        obj, name = test.args
        if isinstance(name, ast.Constant) and isinstance(name.value, str) and _simple_ref(obj):
            return obj, name.value
    return None


def _in_of(test: ast.AST):
    if isinstance(test, ast.Compare) and len(test.ops) == 1 and isinstance(test.ops[0], ast.In) and _simple_ref(test.left) and _simple_ref(test.comparators[0]):
        return test.left, test.comparators[0]
    return None


def _getattr_call(obj, name, default, like):
    c = ast.Call(func=ast.Name(id="getattr", ctx=ast.Load()), args=[obj, ast.Constant(value=name), default], keywords=[])
    return ast.fix_missing_locations(ast.copy_location(c, like))


def _get_call(mapping, key, default, like):
    c = ast.Call(func=ast.Attribute(value=mapping, attr="get", ctx=ast.Load()), args=[key, default], keywords=[])
    return ast.fix_missing_locations(ast.copy_location(c, like))


def _single_assign(body: List[ast.stmt]):
    if len(body) == 1 and isinstance(body[0], ast.Assign) and len(body[0].targets) == 1 and isinstance(body[0].targets[0], ast.Name):
        return body[0].targets[0], body[0].value
    return None


_FIELD = re.compile(r"\{(\d*)\}")


class Normalizer(ast.NodeTransformer):
    def __init__(self):
        self.count = 0

    # ---- expressions
    def visit_IfExp(self, n: ast.IfExp):
        self.generic_visit(n)
        h = _hasattr_of(n.test)
        if h and isinstance(n.body, ast.Attribute) and n.body.attr == h[1] and _same(n.body.value, h[0]):
            self.count += 1
            return _getattr_call(h[0], h[1], n.orelse, n)
        i = _in_of(n.test)
        if i and isinstance(n.body, ast.Subscript) and _same(n.body.value, i[1]) and _same(n.body.slice, i[0]):
            self.count += 1
            return _get_call(i[1], i[0], n.orelse, n)
        return n

    def visit_Call(self, n: ast.Call):
        self.generic_visit(n)
        # N8: f(**{"a": x, "b": y})  ->  f(a=x, b=y)      (constant identifier keys, no duplicate with explicit keywords)
        if any(k.arg is None and isinstance(k.value, ast.Dict) for k in n.keywords):
            explicit = {k.arg for k in n.keywords if k.arg}
            new_kw = []
            ok = True
            for k in n.keywords:
                if k.arg is None and isinstance(k.value, ast.Dict):
                    d = k.value
                    if all(isinstance(kk, ast.Constant) and isinstance(kk.value, str) and kk.value.isidentifier() and kk.value not in explicit for kk in d.keys) and len({kk.value for kk in d.keys}) == len(d.keys):
                        new_kw += [ast.keyword(arg=kk.value, value=vv) for kk, vv in zip(d.keys, d.values)]
                    else:
                        ok = False
                        break
                else:
                    new_kw.append(k)
            if ok:
                n.keywords = new_kw
                self.count += 1
        # N12: x.get(k, None) -> x.get(k)
        if isinstance(n.func, ast.Attribute) and n.func.attr == "get" and len(n.args) == 2 and not n.keywords and isinstance(n.args[1], ast.Constant) and n.args[1].value is None:
            n.args = n.args[:1]
            self.count += 1
        # N9: dict() -> {}, list() -> [], tuple() -> ()
        if isinstance(n.func, ast.Name) and not n.args and not n.keywords and n.func.id in ("dict", "list", "tuple"):
            self.count += 1
            lit = {"dict": ast.Dict(keys=[], values=[]), "list": ast.List(elts=[], ctx=ast.Load()), "tuple": ast.Tuple(elts=[], ctx=ast.Load())}[n.func.id]
            return ast.copy_location(lit, n)
        f = n.func
        if isinstance(f, ast.Attribute) and f.attr == "format" and isinstance(f.value, ast.Constant) and isinstance(f.value.value, str) and not n.keywords and not any(isinstance(a, ast.Starred) for a in n.args):
            fmt = f.value.value
            stripped = fmt.replace("{{", "").replace("}}", "")
            fields = _FIELD.findall(stripped)
            if "{" in _FIELD.sub("", stripped) or "}" in _FIELD.sub("", stripped):
                return n  # named fields, format specs, conversions: leave
            auto = all(x == "" for x in fields)
            manual = all(x != "" for x in fields)
            if not fields or not (auto or manual):
                return n
            idx = list(range(len(fields))) if auto else [int(x) for x in fields]
            if any(i >= len(n.args) for i in idx):
                return n
            parts: List[ast.AST] = []
            pos = 0
            k = 0
            for m in re.finditer(r"\{\{|\}\}|\{(\d*)\}", fmt):
                lit = fmt[pos:m.start()]
                if m.group(0) in ("{{", "}}"):
                    lit += m.group(0)[0]
                    if lit:
                        parts.append(ast.Constant(value=lit))
                    pos = m.end()
                    continue
                if lit:
                    parts.append(ast.Constant(value=lit))
                parts.append(ast.FormattedValue(value=n.args[idx[k]], conversion=-1, format_spec=None))
                k += 1
                pos = m.end()
            if fmt[pos:]:
                parts.append(ast.Constant(value=fmt[pos:]))
            # merge adjacent constants
            merged: List[ast.AST] = []
            for p in parts:
                if merged and isinstance(p, ast.Constant) and isinstance(merged[-1], ast.Constant):
                    merged[-1] = ast.Constant(value=merged[-1].value + p.value)
                else:
                    merged.append(p)
            self.count += 1
            return ast.fix_missing_locations(ast.copy_location(ast.JoinedStr(values=merged), n))
        return n

    def visit_JoinedStr(self, n: ast.JoinedStr):
        # f"{s}{'\n'}" (what a named string constant inside an f-string becomes once it is read as its literal) -> f"{s}\n"
        self.generic_visit(n)
        vals: List[ast.AST] = []
        changed = False
        for v in n.values:
            if isinstance(v, ast.FormattedValue) and v.conversion == -1 and v.format_spec is None and isinstance(v.value, ast.Constant) and isinstance(v.value.value, str):
                v = ast.copy_location(ast.Constant(value=v.value.value), v)
                changed = True
            if vals and isinstance(v, ast.Constant) and isinstance(vals[-1], ast.Constant) and isinstance(v.value, str) and isinstance(vals[-1].value, str):
                vals[-1] = ast.copy_location(ast.Constant(value=vals[-1].value + v.value), vals[-1])
                changed = True
            else:
                vals.append(v)
        if changed:
            self.count += 1
            n.values = vals
        return n

    # ---- statements
    def visit_Return(self, n: ast.Return):
        self.generic_visit(n)
        if isinstance(n.value, ast.IfExp):
            # N5: `return A if c else B`  ->  if c: return A / else: return B   (c is evaluated once, then one arm: identical)
            self.count += 1
            a = ast.copy_location(ast.Return(value=n.value.body), n)
            b = ast.copy_location(ast.Return(value=n.value.orelse), n)
            node = ast.If(test=n.value.test, body=[a], orelse=[b])
            return ast.fix_missing_locations(ast.copy_location(node, n))
        return n

    def visit_Assign(self, n: ast.Assign):
        self.generic_visit(n)
        tg = n.targets[0] if len(n.targets) == 1 else None
        plain = isinstance(tg, ast.Name) or (isinstance(tg, ast.Tuple) and all(isinstance(e, ast.Name) for e in tg.elts))
        if plain and isinstance(n.value, ast.IfExp):
            # N7: `x = A if c else B`  ->  if c: x = A / else: x = B      (also `a, b = A if c else B`; arms that are
            # conditional expressions themselves become the nested statements)
            self.count += 1
            a = ast.copy_location(ast.Assign(targets=[copy.deepcopy(tg)], value=n.value.body, type_comment=None), n)
            b = ast.copy_location(ast.Assign(targets=[copy.deepcopy(tg)], value=n.value.orelse, type_comment=None), n)
            a2, b2 = self.visit_Assign(a), self.visit_Assign(b)
            node = ast.If(test=n.value.test, body=[a2], orelse=[b2])
            return ast.fix_missing_locations(ast.copy_location(node, n))
        return n

    def visit_If(self, n: ast.If):
        self.generic_visit(n)
        a, b = _single_assign(n.body), _single_assign(n.orelse)
        if a and b and a[0].id == b[0].id:
            h = _hasattr_of(n.test)
            if h and isinstance(a[1], ast.Attribute) and a[1].attr == h[1] and _same(a[1].value, h[0]):
                self.count += 1
                return ast.copy_location(ast.Assign(targets=[a[0]], value=_getattr_call(h[0], h[1], b[1], n), type_comment=None), n)
            i = _in_of(n.test)
            if i and isinstance(a[1], ast.Subscript) and _same(a[1].value, i[1]) and _same(a[1].slice, i[0]):
                self.count += 1
                return ast.copy_location(ast.Assign(targets=[a[0]], value=_get_call(i[1], i[0], b[1], n), type_comment=None), n)
        return n

    def visit_Try(self, n: ast.Try):
        self.generic_visit(n)
        if n.orelse or n.finalbody or len(n.handlers) != 1:
            return n
        h = n.handlers[0]
        a, b = _single_assign(n.body), _single_assign(h.body)
        if not (a and b and a[0].id == b[0].id) or h.name:
            return n
        et = ast.unparse(h.type) if h.type is not None else ""
        if et == "AttributeError" and isinstance(a[1], ast.Attribute) and _simple_ref(a[1].value):
            self.count += 1
            return ast.copy_location(ast.Assign(targets=[a[0]], value=_getattr_call(a[1].value, a[1].attr, b[1], n), type_comment=None), n)
        return n

    def visit_Match(self, n: ast.Match):
        self.generic_visit(n)
        if not _simple_ref(n.subject):
            return n
        tests: List[Optional[ast.AST]] = []
        for c in n.cases:
            t = self._pattern_test(n.subject, c.pattern)
            if t is False:
                return n
            if c.guard is not None:
                if t is None:
                    t = c.guard
                else:
                    t = ast.BoolOp(op=ast.And(), values=[t, c.guard])
            tests.append(t)
        # build the chain from the last case backwards
        orelse: List[ast.stmt] = []
        for c, t in reversed(list(zip(n.cases, tests))):
            if t is None:
                orelse = list(c.body)
                continue
            node = ast.If(test=t, body=list(c.body), orelse=orelse)
            ast.copy_location(node, c.pattern)
            orelse = [node]
        if not orelse:
            return n
        self.count += 1
        if len(orelse) == 1:
            return ast.fix_missing_locations(orelse[0])
        wrapper = ast.If(test=ast.Constant(value=True), body=orelse, orelse=[])
        return ast.fix_missing_locations(ast.copy_location(wrapper, n))

    def _pattern_test(self, subject, p):
        """expression equivalent to `p` matching `subject`; None for the irrefutable wildcard; False if not expressible"""
        if isinstance(p, ast.MatchAs):
            if p.pattern is None and p.name is None:
                return None
            return False
        if isinstance(p, ast.MatchClass):
            if p.patterns or p.kwd_patterns:
                return False
            return ast.Call(func=ast.Name(id="isinstance", ctx=ast.Load()), args=[subject, p.cls], keywords=[])
        if isinstance(p, ast.MatchValue):
            return ast.Compare(left=subject, ops=[ast.Eq()], comparators=[p.value])
        if isinstance(p, ast.MatchSingleton):
            return ast.Compare(left=subject, ops=[ast.Is()], comparators=[ast.Constant(value=p.value)])
        if isinstance(p, ast.MatchOr):
            subs = [self._pattern_test(subject, q) for q in p.patterns]
            if any(s is False or s is None for s in subs):
                return False
            # isinstance(x, A) or isinstance(x, B) -> isinstance(x, (A, B)) when all are class tests
            if all(isinstance(s, ast.Call) for s in subs):
                return ast.Call(func=ast.Name(id="isinstance", ctx=ast.Load()), args=[subject, ast.Tuple(elts=[s.args[1] for s in subs], ctx=ast.Load())], keywords=[])
            return ast.BoolOp(op=ast.Or(), values=subs)
        return False


def _merge_dict_steps(stmts: List[ast.stmt]) -> int:
    """N6: `d = {…}` immediately followed by `d["k"] = v` statements  ->  one display `d = {…, "k": v}`
    (same evaluation order; only while the stored values do not mention `d` and the keys are constants)."""
    n = 0
    i = 0
    while i < len(stmts):
        s = stmts[i]
        name = None
        if isinstance(s, ast.Assign) and len(s.targets) == 1 and isinstance(s.targets[0], ast.Name) and isinstance(s.value, ast.Dict):
            name = s.targets[0].id
        elif isinstance(s, ast.AnnAssign) and isinstance(s.target, ast.Name) and isinstance(s.value, ast.Dict):
            name = s.target.id
        if name is not None and all(k is not None for k in s.value.keys):
            j = i + 1
            while j < len(stmts):
                t = stmts[j]
                if (isinstance(t, ast.Assign) and len(t.targets) == 1 and isinstance(t.targets[0], ast.Subscript) and isinstance(t.targets[0].value, ast.Name)
                        and t.targets[0].value.id == name and isinstance(t.targets[0].slice, ast.Constant)
                        and not any(isinstance(x, ast.Name) and x.id == name for x in ast.walk(t.value))
                        and not any(isinstance(k, ast.Constant) and k.value == t.targets[0].slice.value for k in s.value.keys)):
                    s.value.keys.append(t.targets[0].slice)
                    s.value.values.append(t.value)
                    del stmts[j]
                    n += 1
                    continue
                break
        i += 1
    return n


def _inline_function_aliases(tree: ast.Module) -> int:
    """N11: `dumps = json.dumps` at the top of a function (bound once, module-rooted dotted name, never rebound) …
    `dumps(x)`  ->  `json.dumps(x)`: a local that only abbreviates a module-level callable is read as that callable."""
    module_names = set()
    for s in tree.body:
        if isinstance(s, (ast.Import, ast.ImportFrom)):
            for a in s.names:
                module_names.add((a.asname or a.name).split(".")[0])
        elif isinstance(s, (ast.FunctionDef, ast.AsyncFunctionDef, ast.ClassDef)):
            module_names.add(s.name)
        elif isinstance(s, ast.Assign):
            for t in s.targets:
                if isinstance(t, ast.Name):
                    module_names.add(t.id)
    n_total = 0
    for fn in [n for n in ast.walk(tree) if isinstance(n, (ast.FunctionDef, ast.AsyncFunctionDef))]:
        params = {a.arg for a in ast.walk(fn.args) if isinstance(a, ast.arg)}
        stores: dict = {}
        for x in ast.walk(fn):
            if isinstance(x, ast.Name) and isinstance(x.ctx, (ast.Store, ast.Del)):
                stores[x.id] = stores.get(x.id, 0) + 1
            elif isinstance(x, (ast.Global, ast.Nonlocal)):
                for nm in x.names:
                    stores[nm] = stores.get(nm, 0) + 5
        local_imports = {(a.asname or a.name).split(".")[0] for x in ast.walk(fn) if isinstance(x, (ast.Import, ast.ImportFrom)) for a in x.names}
        aliases = {}
        own = []
        stack = list(fn.body)
        while stack:
            x = stack.pop()
            if isinstance(x, (ast.FunctionDef, ast.AsyncFunctionDef, ast.ClassDef, ast.Lambda)):
                continue
            own.append(x)
            stack.extend(ast.iter_child_nodes(x))
        for s in own:
            if isinstance(s, ast.Assign) and len(s.targets) == 1 and isinstance(s.targets[0], ast.Name) and stores.get(s.targets[0].id) == 1 and s.targets[0].id not in params:
                v = s.value
                root = v
                depth = 0
                while isinstance(root, ast.Attribute):
                    root = root.value
                    depth += 1
                if depth >= 1 and isinstance(root, ast.Name) and (root.id in module_names or root.id in local_imports) and root.id not in stores and root.id not in params:
                    aliases[s.targets[0].id] = v

                def _rooted(e):
                    r_, d_ = e, 0
                    while isinstance(r_, ast.Attribute):
                        r_, d_ = r_.value, d_ + 1
                    return d_ >= 1 and isinstance(r_, ast.Name) and (r_.id in module_names or r_.id in local_imports) and r_.id not in stores and r_.id not in params

                def _steady(t):
                    # a plain reference nothing in this function stores into (`self._loud`, a parameter): the same answer at
                    # the call as at the binding, as far as this function is concerned
                    r_ = t
                    while isinstance(r_, ast.Attribute):
                        r_ = r_.value
                    if not isinstance(r_, ast.Name) or stores.get(r_.id):
                        return False
                    return not any(isinstance(x, ast.Attribute) and isinstance(x.ctx, (ast.Store, ast.Del)) and ast.unparse(x) == ast.unparse(t) for x in own)

                if isinstance(v, ast.IfExp) and _rooted(v.body) and _rooted(v.orelse) and _steady(v.test):
                    aliases[s.targets[0].id] = v  # `report = logger.error if self._loud else logger.debug`
        if not aliases:
            continue
        import copy as _copy

        class T(ast.NodeTransformer):
            def visit_Name(self, node):
                if isinstance(node.ctx, ast.Load) and node.id in aliases:
                    return ast.copy_location(_copy.deepcopy(aliases[node.id]), node)
                return node

        for i, s in enumerate(fn.body):
            fn.body[i] = T().visit(s)
        n_total += len(aliases)
    return n_total


def _merge_list_steps(stmts: List[ast.stmt]) -> int:
    """N13: `v = [a]` immediately followed by `v.extend(b)` / `v.append(c)` statements  ->  `v = [a, *b, c]`."""
    n = 0
    i = 0
    while i < len(stmts):
        s = stmts[i]
        if isinstance(s, ast.Assign) and len(s.targets) == 1 and isinstance(s.targets[0], ast.Name) and isinstance(s.value, ast.List):
            name = s.targets[0].id
            j = i + 1
            while j < len(stmts):
                t = stmts[j]
                if (isinstance(t, ast.Expr) and isinstance(t.value, ast.Call) and isinstance(t.value.func, ast.Attribute) and isinstance(t.value.func.value, ast.Name)
                        and t.value.func.value.id == name and t.value.func.attr in ("extend", "append") and len(t.value.args) == 1 and not t.value.keywords
                        and not any(isinstance(x, ast.Name) and x.id == name for x in ast.walk(t.value.args[0]))):
                    a = t.value.args[0]
                    s.value.elts.append(ast.Starred(value=a, ctx=ast.Load()) if t.value.func.attr == "extend" else a)
                    del stmts[j]
                    n += 1
                    continue
                break
        i += 1
    return n


def _expand_local_kwargs(tree: ast.Module) -> int:
    """N8b: `opts = {"a": x, "b": y}` (bound once, never touched again) … `f(**opts)`  ->  `f(a=x, b=y)`."""
    import copy as _copy

    n_total = 0
    for fn in [n for n in ast.walk(tree) if isinstance(n, (ast.FunctionDef, ast.AsyncFunctionDef))]:
        own = []
        stack = list(fn.body)
        while stack:
            x = stack.pop()
            if isinstance(x, (ast.FunctionDef, ast.AsyncFunctionDef, ast.ClassDef, ast.Lambda)):
                continue
            own.append(x)
            stack.extend(ast.iter_child_nodes(x))
        uses: dict = {}
        for x in own:
            if isinstance(x, ast.Name):
                uses.setdefault(x.id, []).append(x)
        for c in own:
            if not isinstance(c, ast.Call):
                continue
            for i, k in enumerate(list(c.keywords)):
                if k.arg is None and isinstance(k.value, ast.Name):
                    nm = k.value.id
                    us = uses.get(nm, [])
                    stores = [u for u in us if isinstance(u.ctx, ast.Store)]
                    loads = [u for u in us if isinstance(u.ctx, ast.Load)]
                    if len(stores) != 1 or len(loads) != 1 or loads[0] is not k.value:
                        continue
                    asg = [a for a in own if isinstance(a, (ast.Assign, ast.AnnAssign)) and (a.targets[0] if isinstance(a, ast.Assign) else a.target) is stores[0]]
                    if len(asg) != 1 or not isinstance(asg[0].value, ast.Dict):
                        continue
                    d = asg[0].value
                    explicit = {kk.arg for kk in c.keywords if kk.arg}
                    if not d.keys or not all(isinstance(kk, ast.Constant) and isinstance(kk.value, str) and kk.value.isidentifier() and kk.value not in explicit for kk in d.keys):
                        continue
                    new_kw = [ast.keyword(arg=kk.value, value=_copy.deepcopy(vv)) for kk, vv in zip(d.keys, d.values)]
                    c.keywords[i:i + 1] = new_kw
                    n_total += 1
    return n_total


# --------------------------------------------------------------------------- N14: filter loop + delivery loop  ->  one loop
_PURE_STR_METHODS = {"strip", "lstrip", "rstrip", "lower", "upper", "startswith", "endswith", "removeprefix", "removesuffix", "isspace"}


def _pure_expr(e: ast.AST) -> bool:
    """Names, constants, comparisons, boolean operators, and str methods that cannot raise and touch nothing."""
    for n in ast.walk(e):
        if isinstance(n, ast.Call):
            f = n.func
            if isinstance(f, ast.Attribute) and f.attr in _PURE_STR_METHODS and not n.keywords:
                continue
            if isinstance(f, ast.Name) and f.id in ("len", "isinstance", "bool") and not n.keywords:
                continue
            return False
        if isinstance(n, (ast.Await, ast.Yield, ast.YieldFrom, ast.NamedExpr, ast.Lambda, ast.ListComp, ast.SetComp, ast.DictComp, ast.GeneratorExp, ast.Subscript, ast.BinOp)):
            return False
    return True


def _fuse_filter_loops(fn: ast.AST) -> int:
    """N14:  acc = []                                   for p in X:
             for p in X:                                    q = p.strip()
                 q = p.strip()                   ->         if q:
                 if q: acc.append(q)                            y = q
             for y in acc: BODY                                 BODY
    when the first loop only computes locals with side-effect-free, non-raising expressions, appends at most once per
    iteration as the last thing it does, and `acc` is used for nothing else.  Every y reaches BODY in the same order with
    the same value; nothing observable happens between the two loops in the original, so running BODY as soon as its
    element is known changes no trace."""
    count = 0

    def own(n):
        stack = list(ast.iter_child_nodes(n))
        while stack:
            x = stack.pop()
            yield x
            if not isinstance(x, (ast.FunctionDef, ast.AsyncFunctionDef, ast.Lambda, ast.ClassDef)):
                stack.extend(ast.iter_child_nodes(x))

    def uses(name):
        return [x for x in own(fn) if isinstance(x, ast.Name) and x.id == name]

    def blocks(n):
        for x in [n] + list(own(n)):
            for field in ("body", "orelse", "finalbody"):
                v = getattr(x, field, None)
                if isinstance(v, list) and v and isinstance(v[0], ast.stmt):
                    yield v

    def filter_body_ok(stmts, acc, tail) -> bool:
        for i, st in enumerate(stmts):
            last = tail and i == len(stmts) - 1
            if isinstance(st, ast.Pass):
                continue
            if isinstance(st, ast.Continue):
                if i != len(stmts) - 1:
                    return False
                continue
            if isinstance(st, (ast.Assign, ast.AnnAssign)):
                tg = st.targets if isinstance(st, ast.Assign) else [st.target]
                if not all(isinstance(t, ast.Name) for t in tg) or st.value is None or not _pure_expr(st.value):
                    return False
                continue
            if isinstance(st, ast.Expr) and isinstance(st.value, ast.Call) and isinstance(st.value.func, ast.Attribute) and st.value.func.attr == "append" and isinstance(st.value.func.value, ast.Name) and st.value.func.value.id == acc:
                nxt_continue = i == len(stmts) - 2 and isinstance(stmts[-1], ast.Continue)
                if not (last or nxt_continue) or len(st.value.args) != 1 or st.value.keywords or not _pure_expr(st.value.args[0]):
                    return False
                continue
            if isinstance(st, ast.If):
                if not _pure_expr(st.test):
                    return False
                if not filter_body_ok(st.body, acc, last) or not filter_body_ok(st.orelse, acc, last):
                    return False
                continue
            return False
        return True

    def replace_appends(stmts, acc, target, body):
        out = []
        for st in stmts:
            if isinstance(st, ast.Expr) and isinstance(st.value, ast.Call) and isinstance(st.value.func, ast.Attribute) and st.value.func.attr == "append" and isinstance(st.value.func.value, ast.Name) and st.value.func.value.id == acc:
                bind = ast.Assign(targets=[copy.deepcopy(target)], value=st.value.args[0], type_comment=None)
                out.append(ast.copy_location(bind, st))
                out.extend(copy.deepcopy(b) for b in body)
            elif isinstance(st, ast.If):
                st.body = replace_appends(st.body, acc, target, body)
                st.orelse = replace_appends(st.orelse, acc, target, body) if st.orelse else []
                out.append(st)
            else:
                out.append(st)
        return out

    changed = True
    while changed:
        changed = False
        for blk in blocks(fn):
            for i, st in enumerate(blk):
                # acc = []
                acc = None
                if isinstance(st, ast.Assign) and len(st.targets) == 1 and isinstance(st.targets[0], ast.Name) and isinstance(st.value, ast.List) and not st.value.elts:
                    acc = st.targets[0].id
                elif isinstance(st, ast.AnnAssign) and isinstance(st.target, ast.Name) and isinstance(st.value, ast.List) and not st.value.elts:
                    acc = st.target.id
                if acc is None or i + 2 >= len(blk) + 0 and False:
                    continue
                rest = blk[i + 1:]
                if len(rest) < 2 or not isinstance(rest[0], ast.For) or rest[0].orelse:
                    continue
                l1 = rest[0]
                j = 1
                names = {acc}
                while j < len(rest) and (isinstance(rest[j], ast.Pass) or (isinstance(rest[j], ast.Assign) and len(rest[j].targets) == 1 and isinstance(rest[j].targets[0], ast.Name) and isinstance(rest[j].value, ast.Name) and rest[j].value.id in names)):
                    if isinstance(rest[j], ast.Assign):
                        names.add(rest[j].targets[0].id)
                    j += 1
                if j >= len(rest) or not isinstance(rest[j], (ast.For, ast.AsyncFor)) or isinstance(rest[j], ast.AsyncFor) or rest[j].orelse:
                    continue
                l2 = rest[j]
                if not (isinstance(l2.iter, ast.Name) and l2.iter.id in names):
                    continue
                if not isinstance(l1.target, ast.Name) or not _pure_expr(l1.iter) and not isinstance(l1.iter, (ast.Name, ast.Attribute)):
                    continue
                if not filter_body_ok(l1.body, acc, True):
                    continue
                # acc and its aliases are used for nothing else
                n_app = sum(1 for x in ast.walk(l1) if isinstance(x, ast.Name) and x.id == acc)
                ok = len(uses(acc)) == 1 + n_app + (1 if l2.iter.id == acc else 0) + sum(1 for k in range(1, j) if isinstance(rest[k], ast.Assign) and rest[k].value.id == acc)
                for a in names - {acc}:
                    ok = ok and len(uses(a)) == 1 + (1 if l2.iter.id == a else 0) + sum(1 for k in range(1, j) if isinstance(rest[k], ast.Assign) and rest[k].value.id == a)
                if not ok:
                    continue
                # what the first loop computes stays inside it; the second loop's body does not know those names
                l1_names = {x.id for x in ast.walk(l1) if isinstance(x, ast.Name) and isinstance(x.ctx, ast.Store)}
                l1_nodes = {id(x) for x in ast.walk(l1)}
                if any(isinstance(x, ast.Name) and x.id in l1_names and id(x) not in l1_nodes for x in own(fn)):
                    continue
                l2_stores = {x.id for b in l2.body for x in ast.walk(b) if isinstance(x, ast.Name) and isinstance(x.ctx, ast.Store)} | {x.id for x in ast.walk(l2.target) if isinstance(x, ast.Name)}
                l1_reads = {x.id for x in ast.walk(l1) if isinstance(x, ast.Name) and isinstance(x.ctx, ast.Load)}
                if l2_stores & (l1_reads | l1_names):
                    continue
                l1.body = replace_appends(l1.body, acc, l2.target, l2.body)
                blk[i:i + 1 + j + 1] = [l1]
                count += 1
                changed = True
                break
            if changed:
                break
    return count


# --------------------------------------------------------------------------- N15: a loop over a small constant table -> its rows
def unroll_table_loops(tree: ast.Module, lookup=None) -> int:
    """N15:  ROWS = (("code", int, "an integer"), ("message", str, "a string"))
             for member, kind, wanted in ROWS:            if not ("code" in e and isinstance(e["code"], int)): raise …
                 if not (member in e and …): raise …  ->  if not ("message" in e and isinstance(e["message"], str)): raise …
    for a module-level tuple/list display of at most 8 rows whose elements are literals or plain names, a loop target of
    plain names the body does not rebind, and a body without break/continue/else/yield.  `lookup(name)` finds the display
    when it is imported from another module."""
    tables = {}
    for st in tree.body:
        tg = st.targets[0] if isinstance(st, ast.Assign) and len(st.targets) == 1 else (st.target if isinstance(st, ast.AnnAssign) else None)
        v = getattr(st, "value", None)
        if isinstance(tg, ast.Name) and isinstance(v, (ast.Tuple, ast.List)):
            tables[tg.id] = v
    rebinds = {}
    for n in ast.walk(tree):
        if isinstance(n, ast.Name) and isinstance(n.ctx, (ast.Store, ast.Del)):
            rebinds[n.id] = rebinds.get(n.id, 0) + 1

    def table_of(e):
        if isinstance(e, (ast.Tuple, ast.List)):
            return e
        if isinstance(e, ast.Name):
            if e.id in tables and rebinds.get(e.id, 0) == 1:
                return tables[e.id]
            if lookup is not None and e.id not in rebinds:
                return lookup(e.id)
        return None

    def simple(x):
        return isinstance(x, (ast.Constant, ast.Name)) or (isinstance(x, ast.Attribute) and simple(x.value)) or (isinstance(x, ast.UnaryOp) and isinstance(x.operand, ast.Constant))

    count = 0

    class U(ast.NodeTransformer):
        def visit_For(self, node: ast.For):
            self.generic_visit(node)
            nonlocal count
            t = table_of(node.iter)
            if t is None or node.orelse or not (1 <= len(t.elts) <= 8):
                return node
            names = [node.target] if isinstance(node.target, ast.Name) else (list(node.target.elts) if isinstance(node.target, ast.Tuple) else None)
            if not names or not all(isinstance(x, ast.Name) for x in names):
                return node
            rows = []
            for r in t.elts:
                cells = [r] if isinstance(node.target, ast.Name) else (list(r.elts) if isinstance(r, (ast.Tuple, ast.List)) else None)
                if cells is None or len(cells) != len(names) or not all(simple(c) for c in cells):
                    return node
                rows.append(cells)
            ids = {x.id for x in names}
            for b in node.body:
                for x in ast.walk(b):
                    if isinstance(x, (ast.Break, ast.Continue, ast.Yield, ast.YieldFrom, ast.FunctionDef, ast.AsyncFunctionDef, ast.Lambda)):
                        return node
                    if isinstance(x, ast.Name) and x.id in ids and not isinstance(x.ctx, ast.Load):
                        return node
            out = []
            for cells in rows:
                m = {n_.id: c for n_, c in zip(names, cells)}

                class S(ast.NodeTransformer):
                    def visit_Name(self_, n_):
                        if isinstance(n_.ctx, ast.Load) and n_.id in m:
                            return ast.copy_location(copy.deepcopy(m[n_.id]), n_)
                        return n_

                out += [S().visit(copy.deepcopy(b)) for b in node.body]
            count += 1
            return out

    U().visit(tree)
    if count:
        ast.fix_missing_locations(tree)
    return count


# --------------------------------------------------------------------------- N17: a condition named once, tested at once
def _fold_named_conditions(fn: ast.AST) -> int:
    """N17:  due = bool(token and token.is_cancelled and not sent)        if token and token.is_cancelled and not sent:
             if not due: return                                      ->       …
    for a local bound to a side-effect-free boolean expression and read exactly once, by the `if` that follows at once.
    `bool(E)` in a test is `E`."""
    count = 0
    uses = {}
    for n in ast.walk(fn):
        if isinstance(n, ast.Name):
            uses.setdefault(n.id, []).append(n)
    nonlocal_ = {x for n in ast.walk(fn) if isinstance(n, (ast.Nonlocal, ast.Global)) for x in n.names}

    def strip_bool(e):
        while isinstance(e, ast.Call) and isinstance(e.func, ast.Name) and e.func.id == "bool" and len(e.args) == 1 and not e.keywords:
            e = e.args[0]
        return e

    def boolean(e) -> bool:
        return isinstance(e, (ast.BoolOp, ast.Compare)) or (isinstance(e, ast.UnaryOp) and isinstance(e.op, ast.Not)) or (isinstance(e, ast.Call) and isinstance(e.func, ast.Name) and e.func.id == "bool")

    for node in ast.walk(fn):
        for field in ("body", "orelse", "finalbody"):
            lst = getattr(node, field, None)
            if not (isinstance(lst, list) and lst and isinstance(lst[0], ast.stmt)):
                continue
            i = 0
            while i + 1 < len(lst):
                a, b = lst[i], lst[i + 1]
                i += 1
                if not (isinstance(a, ast.Assign) and len(a.targets) == 1 and isinstance(a.targets[0], ast.Name) and isinstance(b, ast.If)):
                    continue
                c = a.targets[0].id
                if c in nonlocal_ or len(uses.get(c, [])) != 2 or not boolean(a.value) or not _pure_expr(a.value):
                    continue
                t = b.test
                neg = isinstance(t, ast.UnaryOp) and isinstance(t.op, ast.Not)
                core = t.operand if neg else t
                if not (isinstance(core, ast.Name) and core.id == c):
                    continue
                if any(isinstance(x, (ast.FunctionDef, ast.AsyncFunctionDef, ast.Lambda)) and any(isinstance(y, ast.Name) and y.id == c for y in ast.walk(x)) for x in ast.walk(fn) if x is not fn):
                    continue
                e = strip_bool(a.value)
                b.test = ast.copy_location(ast.UnaryOp(op=ast.Not(), operand=e), t) if neg else e
                i -= 1
                del lst[i]
                count += 1
    # `if bool(E)` / `while not bool(E)`
    for n in ast.walk(fn):
        if isinstance(n, (ast.If, ast.While, ast.IfExp)):
            t = n.test
            if isinstance(t, ast.UnaryOp) and isinstance(t.op, ast.Not):
                k = strip_bool(t.operand)
                if k is not t.operand:
                    t.operand = k
                    count += 1
            else:
                k = strip_bool(t)
                if k is not t:
                    n.test = k
                    count += 1
    return count


# --------------------------------------------------------------------------- N19: an assignment expression leading a test
def _hoist_leading_walrus(fn: ast.AST) -> int:
    """N19:  if (mid := getattr(m, "id", None)) == rid: …      ->      mid = getattr(m, "id", None)
                                                                        if mid == rid: …
    when the assignment expression is the first thing the test evaluates (the test itself, the left operand of its
    comparison, or that of the first operand of its and/or); an `elif` is the `if` in its own else-block, so the binding
    still happens only when the earlier tests failed.  `while` tests are left alone (they are evaluated again)."""
    count = 0

    def leading(t):
        """(holder, field) of the NamedExpr that is evaluated first in `t`, or None"""
        if isinstance(t, ast.NamedExpr):
            return ("self", None)
        if isinstance(t, ast.Compare) and isinstance(t.left, ast.NamedExpr):
            return (t, "left")
        if isinstance(t, ast.BoolOp) and t.values:
            first = t.values[0]
            if isinstance(first, ast.NamedExpr):
                return (t, 0)
            inner = leading(first)
            if inner is not None and inner[0] != "self":
                return inner
        if isinstance(t, ast.UnaryOp) and isinstance(t.op, ast.Not):
            if isinstance(t.operand, ast.NamedExpr):
                return (t, "operand")
            inner = leading(t.operand)
            if inner is not None and inner[0] != "self":
                return inner
        return None

    for node in ast.walk(fn):
        for field in ("body", "orelse", "finalbody"):
            lst = getattr(node, field, None)
            if not (isinstance(lst, list) and lst and isinstance(lst[0], ast.stmt)):
                continue
            i = 0
            while i < len(lst):
                st = lst[i]
                if isinstance(st, ast.If):
                    ld = leading(st.test)
                    if ld is not None:
                        holder, where = ld
                        ne = st.test if holder == "self" else (getattr(holder, where) if isinstance(where, str) else holder.values[where])
                        if isinstance(ne.target, ast.Name):
                            bind = ast.copy_location(ast.Assign(targets=[ast.Name(id=ne.target.id, ctx=ast.Store())], value=ne.value, type_comment=None), st)
                            ref = ast.copy_location(ast.Name(id=ne.target.id, ctx=ast.Load()), ne)
                            if holder == "self":
                                st.test = ref
                            elif isinstance(where, str):
                                setattr(holder, where, ref)
                            else:
                                holder.values[where] = ref
                            lst.insert(i, bind)
                            count += 1
                            i += 1
                i += 1
    return count


# --------------------------------------------------------------------------- N16: a loop over a one-loop generator helper -> that loop
def fuse_generator_loops(tree: ast.Module) -> int:
    """N16:  def selected(model, include):                    for key_g, value_g in self.__dict__.items():
                 for key, value in model.__dict__.items():        if include and key_g not in include:
                     if include and key not in include:               continue
                         continue                          ->     k, v = (key_g, value_g)
                     yield key, value                             BODY
             for k, v in selected(self, include): BODY
    for a generator defined once in the module (or a method of the caller's class called through `self`) whose body is one
    `for` loop, whose `yield`s are plain statements in tail position of that loop's body (after a `yield` the next thing is
    the next iteration), and which is called with plain references for arguments it never rebinds.  `break`/`continue` of
    BODY keep their meaning: both loops end together, and resuming the generator after its `yield` *is* the next iteration."""
    defs = {}
    for n in ast.walk(tree):
        if isinstance(n, ast.FunctionDef):
            defs.setdefault(n.name, []).append(n)

    def tail_yields(body, out) -> bool:
        """every Yield in `body` is a statement in tail position; collects (list, index) of each"""
        for i, st in enumerate(body):
            last = i == len(body) - 1
            if isinstance(st, ast.Expr) and isinstance(st.value, ast.Yield):
                if not last or st.value.value is None:
                    return False
                out.append((body, i))
                continue
            has = any(isinstance(x, (ast.Yield, ast.YieldFrom)) for x in ast.walk(st))
            if not has:
                continue
            if not last or not isinstance(st, ast.If):
                return False
            if not tail_yields(st.body, out) or not tail_yields(st.orelse, out):
                return False
        return True

    def shape(g: ast.FunctionDef):
        a = g.args
        if a.vararg or a.kwarg or a.kwonlyargs or a.posonlyargs or any(not (isinstance(d, ast.Name) and d.id in ("staticmethod",)) for d in g.decorator_list):
            return None
        body = [s_ for s_ in g.body if not (isinstance(s_, ast.Expr) and isinstance(s_.value, ast.Constant))]
        if len(body) != 1 or not isinstance(body[0], ast.For) or body[0].orelse:
            return None
        loop = body[0]
        if any(isinstance(x, (ast.Return, ast.YieldFrom, ast.Try, ast.With, ast.AsyncWith, ast.FunctionDef, ast.AsyncFunctionDef, ast.Lambda, ast.Global, ast.Nonlocal, ast.Await)) for x in ast.walk(loop)):
            return None
        if any(isinstance(x, (ast.Yield, ast.YieldFrom)) for x in ast.walk(loop.iter)):
            return None
        ys = []
        if not tail_yields(loop.body, ys) or not (1 <= len(ys) <= 2):
            return None
        params = [p.arg for p in a.args]
        stored = {x.id for x in ast.walk(loop) if isinstance(x, ast.Name) and isinstance(x.ctx, (ast.Store, ast.Del))}
        if stored & set(params):
            return None
        return loop, params, stored

    def simple(x):
        return isinstance(x, (ast.Constant, ast.Name)) or (isinstance(x, ast.Attribute) and simple(x.value))

    count = 0

    def visit_fn(fn, cls):
        nonlocal count
        used = {x.id for x in ast.walk(fn) if isinstance(x, ast.Name)} | {p.arg for p in fn.args.args + fn.args.kwonlyargs}

        class F(ast.NodeTransformer):
            def visit_FunctionDef(self, node):
                return node if node is not fn else self.generic_visit(node)

            visit_AsyncFunctionDef = visit_FunctionDef

            def visit_Lambda(self, node):
                return node

            def visit_For(self, node: ast.For):
                self.generic_visit(node)
                nonlocal count
                c = node.iter
                if node.orelse or not isinstance(c, ast.Call) or c.keywords and any(k.arg is None for k in c.keywords):
                    return node
                g = None
                skip_self = False
                if isinstance(c.func, ast.Name) and len(defs.get(c.func.id, [])) == 1:
                    g = defs[c.func.id][0]
                    if any(g in getattr(k, "body", []) for k in ast.walk(tree) if isinstance(k, ast.ClassDef)):
                        g = None  # a method is not reachable by its bare name
                elif isinstance(c.func, ast.Attribute) and isinstance(c.func.value, ast.Name) and c.func.value.id == "self" and cls is not None:
                    ms = [m for m in cls.body if isinstance(m, ast.FunctionDef) and m.name == c.func.attr]
                    if len(ms) == 1 and not ms[0].decorator_list and ms[0].args.args and ms[0].args.args[0].arg == "self":
                        g, skip_self = ms[0], True
                if g is None or g is fn:
                    return node
                sh = shape(g)
                if sh is None:
                    return node
                loop, params, stored = sh
                args = ([ast.Name(id="self", ctx=ast.Load())] if skip_self else []) + list(c.args)
                binding = dict(zip(params, args))
                for k in c.keywords:
                    if k.arg in binding or k.arg not in params:
                        return node
                    binding[k.arg] = k.value
                defaults = dict(zip(params[len(params) - len(g.args.defaults):], g.args.defaults))
                for p in params:
                    if p not in binding:
                        if p not in defaults or not isinstance(defaults[p], ast.Constant):
                            return node
                        binding[p] = defaults[p]
                if len(args) > len(params) or not all(simple(v) for v in binding.values()):
                    return node
                if any(isinstance(v, ast.Attribute) for v in binding.values()) and any(isinstance(x, ast.Attribute) and isinstance(x.ctx, (ast.Store, ast.Del)) for b in node.body + [loop] for x in ast.walk(b)):
                    return node  # an attribute handed over is read once by the call; a store in between could change what it names
                # the caller's names the arguments mention must not be rebound by BODY (the generator keeps what it was given)
                arg_names = {x.id for v in binding.values() for x in ast.walk(v) if isinstance(x, ast.Name)}
                body_stores = {x.id for b in node.body for x in ast.walk(b) if isinstance(x, ast.Name) and isinstance(x.ctx, (ast.Store, ast.Del))}
                tgt_names = {x.id for x in ast.walk(node.target) if isinstance(x, ast.Name)}
                if arg_names & (body_stores | tgt_names):
                    return node
                ren = {}
                for nm in sorted(stored):
                    k = nm + "_g"
                    while k in used:
                        k += "_"
                    ren[nm] = k
                    used.add(k)

                class S(ast.NodeTransformer):
                    def visit_Name(self_, n_):
                        if n_.id in ren:
                            return ast.copy_location(ast.Name(id=ren[n_.id], ctx=n_.ctx), n_)
                        if isinstance(n_.ctx, ast.Load) and n_.id in binding:
                            return ast.copy_location(copy.deepcopy(binding[n_.id]), n_)
                        return n_

                new = S().visit(copy.deepcopy(loop))
                ys = []
                tail_yields(new.body, ys)
                for k_, (lst, i) in enumerate(ys):
                    val = lst[i].value.value
                    bind = ast.Assign(targets=[copy.deepcopy(node.target)], value=val, lineno=node.lineno)
                    lst[i:i + 1] = [bind] + (node.body if k_ == len(ys) - 1 else copy.deepcopy(node.body))
                ast.copy_location(new, node)
                count += 1
                return new

        F().visit(fn)

    def walk_scopes(node, cls):
        for ch in ast.iter_child_nodes(node):
            if isinstance(ch, (ast.FunctionDef, ast.AsyncFunctionDef)):
                visit_fn(ch, cls)
                walk_scopes(ch, None)
            elif isinstance(ch, ast.ClassDef):
                walk_scopes(ch, ch)
            else:
                walk_scopes(ch, cls)

    walk_scopes(tree, None)
    if count:
        ast.fix_missing_locations(tree)
    return count


# --------------------------------------------------------------------------- N18: a call through a small constant table of functions
def expand_table_dispatch(tree: ast.Module) -> int:
    """N18:  _ENCODERS = {str: enc_text, dict: enc_map}
             r = _ENCODERS.get(type(m), enc_any)(m)     ->     r = enc_text(m) if type(m) is str else (enc_map(m) if type(m) is dict else enc_any(m))
    for a module-level dict display of at most 8 entries bound once, never stored into, whose keys are plain names or
    constants and whose values are plain names, looked up with `.get(key, default)` (default a plain name) or `[key]` and
    called at once.  (`is` for class keys — a dict finds a class by identity —, `==` for constants.)"""
    tables, binds = {}, {}
    for st in tree.body:
        tg = st.targets[0] if isinstance(st, ast.Assign) and len(st.targets) == 1 else (st.target if isinstance(st, ast.AnnAssign) else None)
        v = getattr(st, "value", None)
        if isinstance(tg, ast.Name):
            binds[tg.id] = binds.get(tg.id, 0) + 1
            if isinstance(v, ast.Dict) and 1 <= len(v.keys) <= 8 and all(isinstance(k, (ast.Name, ast.Constant)) for k in v.keys) and all(isinstance(x, ast.Name) for x in v.values):
                tables[tg.id] = v
    for n in ast.walk(tree):
        if isinstance(n, ast.Name) and isinstance(n.ctx, (ast.Store, ast.Del)) and n.id in tables and binds.get(n.id, 0) >= 1:
            binds[n.id] += 0
        if isinstance(n, ast.Subscript) and isinstance(n.ctx, (ast.Store, ast.Del)) and isinstance(n.value, ast.Name):
            tables.pop(n.value.id, None)
        if isinstance(n, ast.Call) and isinstance(n.func, ast.Attribute) and isinstance(n.func.value, ast.Name) and n.func.attr in ("update", "setdefault", "pop", "clear", "popitem", "__setitem__"):
            tables.pop(n.func.value.id, None)
    stores = {}
    for n in ast.walk(tree):
        if isinstance(n, ast.Name) and isinstance(n.ctx, (ast.Store, ast.Del)):
            stores[n.id] = stores.get(n.id, 0) + 1
    tables = {k: v for k, v in tables.items() if stores.get(k, 0) == 1}
    if not tables:
        return 0
    count = 0

    def simple(x):
        return isinstance(x, (ast.Name, ast.Constant)) or (isinstance(x, ast.Attribute) and simple(x.value)) or (isinstance(x, ast.Call) and isinstance(x.func, ast.Name) and x.func.id == "type" and len(x.args) == 1 and not x.keywords and simple(x.args[0]))

    class D(ast.NodeTransformer):
        def visit_Call(self, node: ast.Call):
            self.generic_visit(node)
            nonlocal count
            f = node.func
            tbl = key = default = None
            if isinstance(f, ast.Call) and isinstance(f.func, ast.Attribute) and f.func.attr == "get" and isinstance(f.func.value, ast.Name) and f.func.value.id in tables and len(f.args) == 2 and not f.keywords and isinstance(f.args[1], ast.Name):
                tbl, key, default = tables[f.func.value.id], f.args[0], f.args[1]
            elif isinstance(f, ast.Subscript) and isinstance(f.value, ast.Name) and f.value.id in tables:
                tbl, key = tables[f.value.id], f.slice
            if tbl is None or not simple(key) or not all(simple(a) for a in node.args) or any(k.arg is None or not simple(k.value) for k in node.keywords):
                return node

            def call_of(fn):
                return ast.Call(func=ast.Name(id=fn.id, ctx=ast.Load()), args=[copy.deepcopy(a) for a in node.args], keywords=[copy.deepcopy(k) for k in node.keywords])

            if default is not None:
                out = call_of(default)
            else:
                # `TABLE[key](…)`: a miss raises KeyError — kept as the lookup itself on the last arm
                out = copy.deepcopy(node)
            for k, v in reversed(list(zip(tbl.keys, tbl.values))):
                op = ast.Eq() if isinstance(k, ast.Constant) else ast.Is()
                test = ast.Compare(left=copy.deepcopy(key), ops=[op], comparators=[copy.deepcopy(k)])
                out = ast.IfExp(test=test, body=call_of(v), orelse=out)
            count += 1
            return ast.copy_location(out, node)

    D().visit(tree)
    if count:
        ast.fix_missing_locations(tree)
    return count


def normalize(tree: ast.Module) -> int:
    n18 = expand_table_dispatch(tree)
    n18 += _inline_function_aliases(tree)  # (before N7 turns `f = a if c else b` into two bindings)
    nz = Normalizer()
    nz.visit(tree)
    nz.count += n18
    for fn_ in [x for x in ast.walk(tree) if isinstance(x, (ast.FunctionDef, ast.AsyncFunctionDef))]:
        nz.count += _hoist_leading_walrus(fn_)
        nz.count += _fuse_filter_loops(fn_)
        nz.count += _fold_named_conditions(fn_)
    nz.count += _inline_function_aliases(tree)
    nz.count += fuse_generator_loops(tree)
    for node in ast.walk(tree):
        for field in ("body", "orelse", "finalbody"):
            v = getattr(node, field, None)
            if isinstance(v, list) and v and isinstance(v[0], ast.stmt):
                nz.count += _merge_dict_steps(v)
                nz.count += _merge_list_steps(v)
    nz.count += _expand_local_kwargs(tree)
    if nz.count:
        ast.fix_missing_locations(tree)
    return nz.count


# --------------------------------------------------------------------------- N10: named literal constants
import re as _re

_CONST_NAME = _re.compile(r"^_?[A-Z][A-Z0-9_]*$")


def _literal(v: ast.AST) -> bool:
    if isinstance(v, ast.Tuple) and len(v.elts) <= 8 and isinstance(v.ctx, ast.Load):
        return all(_literal(e) and not isinstance(e, ast.Tuple) for e in v.elts)  # `NO_REPLY = (None, None)`: immutable, its members are all it is
    if isinstance(v, ast.Constant) and (v.value is None or isinstance(v.value, (str, int, float, bool))) and not isinstance(v.value, bytes):
        return True
    return isinstance(v, ast.UnaryOp) and isinstance(v.op, (ast.USub, ast.UAdd)) and isinstance(v.operand, ast.Constant) and isinstance(v.operand.value, (int, float)) and not isinstance(v.operand.value, bool)


def module_literals(tree: ast.Module) -> dict:
    """UPPER_CASE module-level names bound exactly once, at top level, to a str/number/bool/None literal."""
    counts: dict = {}
    vals: dict = {}
    pending: list = []
    for n in ast.walk(tree):
        if isinstance(n, ast.Name) and isinstance(n.ctx, (ast.Store, ast.Del)):
            counts[n.id] = counts.get(n.id, 0) + 1
        elif isinstance(n, (ast.Global, ast.Nonlocal)):
            for x in n.names:
                counts[x] = counts.get(x, 0) + 2
    for s in tree.body:
        tgt = val = None
        if isinstance(s, ast.Assign) and len(s.targets) == 1 and isinstance(s.targets[0], ast.Name):
            tgt, val = s.targets[0].id, s.value
        elif isinstance(s, ast.AnnAssign) and isinstance(s.target, ast.Name) and s.value is not None:
            tgt, val = s.target.id, s.value
        if tgt and _CONST_NAME.match(tgt) and counts.get(tgt, 0) == 1:
            if _literal(val):
                vals[tgt] = val
            else:
                pending.append((tgt, val))
    # constants built from other constants of the same module: "{}" + LINE_TERMINATOR, 64 * 1024, f"{A}{B}"
    for _ in range(3):
        for tgt, val in pending:
            if tgt in vals:
                continue
            v = _fold_simple(val, vals)
            if v is not _NO:
                vals[tgt] = ast.copy_location(ast.Constant(value=v), val)
    return vals


_NO = object()


def _fold_simple(n: ast.AST, env: dict):
    if isinstance(n, ast.Constant) and (n.value is None or isinstance(n.value, (str, int, float, bool))):
        return n.value
    if isinstance(n, ast.Name) and n.id in env:
        return _fold_simple(env[n.id], env)
    if isinstance(n, ast.UnaryOp) and isinstance(n.op, ast.USub):
        v = _fold_simple(n.operand, env)
        return -v if isinstance(v, (int, float)) and not isinstance(v, bool) else _NO
    if isinstance(n, ast.BinOp) and isinstance(n.op, (ast.Add, ast.Mult)):
        a, b = _fold_simple(n.left, env), _fold_simple(n.right, env)
        if a is _NO or b is _NO:
            return _NO
        try:
            if isinstance(n.op, ast.Add) and type(a) is type(b) and isinstance(a, (str, int, float)) and not isinstance(a, bool):
                return a + b
            if isinstance(n.op, ast.Mult) and isinstance(a, (int, float)) and isinstance(b, (int, float)) and not isinstance(a, bool) and not isinstance(b, bool):
                return a * b
        except Exception:
            return _NO
        return _NO
    if isinstance(n, ast.Call) and isinstance(n.func, ast.Attribute) and n.func.attr in ("lower", "upper", "strip", "casefold", "title", "encode") and not n.args and not n.keywords:
        v = _fold_simple(n.func.value, env)
        if isinstance(v, str) and n.func.attr != "encode":
            return getattr(v, n.func.attr)()
        return _NO
    if isinstance(n, ast.Call) and isinstance(n.func, ast.Attribute) and n.func.attr == "join" and len(n.args) == 1 and isinstance(n.args[0], (ast.Tuple, ast.List)) and not n.keywords:
        sep = _fold_simple(n.func.value, env)
        parts = [_fold_simple(e, env) for e in n.args[0].elts]
        if isinstance(sep, str) and all(isinstance(x, str) for x in parts):
            return sep.join(parts)
        return _NO
    if isinstance(n, ast.JoinedStr):
        out = ""
        for p in n.values:
            if isinstance(p, ast.Constant):
                out += str(p.value)
            elif isinstance(p, ast.FormattedValue) and p.format_spec is None and p.conversion == -1:
                v = _fold_simple(p.value, env)
                if not isinstance(v, str):
                    return _NO
                out += v
            else:
                return _NO
        return out
    return _NO


def module_dict_constants(tree: ast.Module) -> dict:
    """UPPER_CASE module-level names bound once to a dict display (possibly wrapped in MappingProxyType/dict/frozendict)
    whose keys are identifier strings and whose values are literals: usable at `**NAME` call sites."""
    counts: dict = {}
    for n in ast.walk(tree):
        if isinstance(n, ast.Name) and isinstance(n.ctx, (ast.Store, ast.Del)):
            counts[n.id] = counts.get(n.id, 0) + 1
    out = {}
    for s in tree.body:
        tgt = val = None
        if isinstance(s, ast.Assign) and len(s.targets) == 1 and isinstance(s.targets[0], ast.Name):
            tgt, val = s.targets[0].id, s.value
        elif isinstance(s, ast.AnnAssign) and isinstance(s.target, ast.Name) and s.value is not None:
            tgt, val = s.target.id, s.value
        if not tgt or not _CONST_NAME.match(tgt) or counts.get(tgt, 0) != 1:
            continue
        if isinstance(val, ast.Call) and len(val.args) == 1 and not val.keywords and ast.unparse(val.func).split(".")[-1] in ("MappingProxyType", "dict", "frozendict"):
            val = val.args[0]
        if isinstance(val, ast.Dict) and val.keys and all(isinstance(k, ast.Constant) and isinstance(k.value, str) and k.value.isidentifier() for k in val.keys) and all(_literal(v) for v in val.values):
            out[tgt] = val
    return out


def propagate_literals(modules: dict, resolve, resolve_dict=None) -> int:
    """N10: a load of such a name — in the defining module or wherever it is imported by `from m import NAME` — is
    replaced by the literal (functions and class bodies that rebind the name themselves are left alone).
    `modules`: name -> (tree, imports {local: (module, attr)});  `resolve(module, name)` -> literal node or None."""
    import copy

    n_total = 0
    for mname, (tree, _imports) in modules.items():
        class T(ast.NodeTransformer):
            def __init__(self):
                self.shadow = [set()]
                self.n = 0

            def _scope(self, node, extra):
                bound = set(extra)
                for x in ast.walk(node):
                    if isinstance(x, ast.Name) and isinstance(x.ctx, (ast.Store, ast.Del)):
                        bound.add(x.id)
                    elif isinstance(x, ast.arg):
                        bound.add(x.arg)
                    elif isinstance(x, ast.ExceptHandler) and x.name:
                        bound.add(x.name)
                    elif isinstance(x, (ast.Import, ast.ImportFrom)):
                        for a in x.names:
                            bound.add((a.asname or a.name).split(".")[0])
                self.shadow.append(bound)
                self.generic_visit(node)
                self.shadow.pop()
                return node

            def visit_FunctionDef(self, node):
                return self._scope(node, ())

            visit_AsyncFunctionDef = visit_FunctionDef
            visit_Lambda = visit_FunctionDef

            def visit_ClassDef(self, node):
                bound = set()
                for s_ in node.body:
                    for x in ast.walk(s_):
                        if isinstance(x, (ast.FunctionDef, ast.AsyncFunctionDef)):
                            break
                    if isinstance(s_, (ast.Assign, ast.AnnAssign)):
                        for t in (s_.targets if isinstance(s_, ast.Assign) else [s_.target]):
                            if isinstance(t, ast.Name):
                                bound.add(t.id)
                self.shadow.append(bound)
                self.generic_visit(node)
                self.shadow.pop()
                return node

            def visit_Call(self, node):
                # f(**OPTIONS) with OPTIONS a constant mapping of literals  ->  f(k=v, …)
                if resolve_dict is not None and any(k.arg is None and isinstance(k.value, ast.Name) for k in node.keywords):
                    explicit = {k.arg for k in node.keywords if k.arg}
                    new_kw = []
                    for k in node.keywords:
                        d = resolve_dict(mname, k.value.id) if (k.arg is None and isinstance(k.value, ast.Name) and not any(k.value.id in sh for sh in self.shadow[1:])) else None
                        if d is not None and not ({kk.value for kk in d.keys} & explicit):
                            new_kw += [ast.keyword(arg=kk.value, value=copy.deepcopy(vv)) for kk, vv in zip(d.keys, d.values)]
                            self.n += 1
                        else:
                            new_kw.append(k)
                    node.keywords = new_kw
                self.generic_visit(node)
                return node

            def visit_Name(self, node):
                if not isinstance(node.ctx, ast.Load) or not _CONST_NAME.match(node.id) or any(node.id in sh for sh in self.shadow[1:]):
                    return node
                lit = resolve(mname, node.id)
                if lit is None:
                    return node
                self.n += 1
                return ast.copy_location(copy.deepcopy(lit), node)

        t = T()
        # module-level statements: only inside expressions of defs/classes and of other statements' values, never the
        # defining assignment itself (Store context is untouched anyway)
        t.visit(tree)
        n_total += t.n
    return n_total
