"""Idiom normalisation: equivalent spellings are rewritten, on the parsed tree only, into the one spelling the rules
read.  Every rewrite is a semantic identity of Python (stated next to it); positions are kept (copy_location), the
source text is untouched.  What cannot be rewritten safely is left alone and the rule that meets it decides
(usually exit 2).

N1  X.a if hasattr(X, "a") else D                        ->  getattr(X, "a", D)          (X a plain name/attribute chain)
N1s if hasattr(X, "a"): v = X.a  else: v = D             ->  v = getattr(X, "a", D)
N1t try: v = X.a  except AttributeError: v = D           ->  v = getattr(X, "a", D)
N2  M[k] if k in M else D                                ->  M.get(k, D)                 (k, M plain names/attribute chains/constants)
N2s if k in M: v = M[k]  else: v = D                     ->  v = M.get(k, D)
N3  "..{}..{}..".format(a, b)   (only {} / {0} fields)   ->  f"..{a}..{b}.."
N5  return A if c else B                                 ->  if c: return A  else: return B
N8  f(**{"a": x})                                         ->  f(a=x)
N9  dict() / list() / tuple()                              ->  {} / [] / ()
N7  x = A if c else B                                      ->  if c: x = A  else: x = B
N6  d = {}; d["a"] = x; d["b"] = y   (consecutive)         ->  d = {"a": x, "b": y}
N4  match S: case C(): … case "x": … case _: …           ->  if isinstance(S, C): … elif S == "x": … else: …
    (class patterns without sub-patterns, value/singleton patterns, or-patterns of those, bare wildcard; anything that
     binds a name is left as it is)
"""
from __future__ import annotations

import ast
import re
from typing import List, Optional


def _simple_ref(n: ast.AST) -> bool:
    """a name, an attribute chain on a name, or a constant: evaluating it twice is the same as once"""
    while isinstance(n, ast.Attribute):
        n = n.value
    return isinstance(n, (ast.Name, ast.Constant))


def _same(a: ast.AST, b: ast.AST) -> bool:
    return ast.dump(a) == ast.dump(b)


def _hasattr_of(test: ast.AST):
    if isinstance(test, ast.Call) and isinstance(test.func, ast.Name) and test.func.id == "hasattr" and len(test.args) == 2 and not test.keywords:
        obj, name = test.args
        if isinstance(name, ast.Constant) and isinstance(name.value, str) and _simple_ref(obj):
            return obj, name.value
    return None


def _in_of(test: ast.AST):
    if isinstance(test, ast.Compare) and len(test.ops) == 1 and isinstance(test.ops[0], ast.In) and _simple_ref(test.left) and _simple_ref(test.comparators[0]):
        return test.left, test.comparators[0]
    return None


def _getattr_call(obj, name, default, like):
    c = ast.Call(func=ast.Name(id="getattr", ctx=ast.Load()), args=[obj, ast.Constant(value=name), default], keywords=[])
    return ast.fix_missing_locations(ast.copy_location(c, like))


def _get_call(mapping, key, default, like):
    c = ast.Call(func=ast.Attribute(value=mapping, attr="get", ctx=ast.Load()), args=[key, default], keywords=[])
    return ast.fix_missing_locations(ast.copy_location(c, like))


def _single_assign(body: List[ast.stmt]):
    if len(body) == 1 and isinstance(body[0], ast.Assign) and len(body[0].targets) == 1 and isinstance(body[0].targets[0], ast.Name):
        return body[0].targets[0], body[0].value
    return None


_FIELD = re.compile(r"\{(\d*)\}")


class Normalizer(ast.NodeTransformer):
    def __init__(self):
        self.count = 0

    # ---- expressions
    def visit_IfExp(self, n: ast.IfExp):
        self.generic_visit(n)
        h = _hasattr_of(n.test)
        if h and isinstance(n.body, ast.Attribute) and n.body.attr == h[1] and _same(n.body.value, h[0]):
            self.count += 1
            return _getattr_call(h[0], h[1], n.orelse, n)
        i = _in_of(n.test)
        if i and isinstance(n.body, ast.Subscript) and _same(n.body.value, i[1]) and _same(n.body.slice, i[0]):
            self.count += 1
            return _get_call(i[1], i[0], n.orelse, n)
        return n

    def visit_Call(self, n: ast.Call):
        self.generic_visit(n)
        # N8: f(**{"a": x, "b": y})  ->  f(a=x, b=y)      (constant identifier keys, no duplicate with explicit keywords)
        if any(k.arg is None and isinstance(k.value, ast.Dict) for k in n.keywords):
            explicit = {k.arg for k in n.keywords if k.arg}
            new_kw = []
            ok = True
            for k in n.keywords:
                if k.arg is None and isinstance(k.value, ast.Dict):
                    d = k.value
                    if all(isinstance(kk, ast.Constant) and isinstance(kk.value, str) and kk.value.isidentifier() and kk.value not in explicit for kk in d.keys) and len({kk.value for kk in d.keys}) == len(d.keys):
                        new_kw += [ast.keyword(arg=kk.value, value=vv) for kk, vv in zip(d.keys, d.values)]
                    else:
                        ok = False
                        break
                else:
                    new_kw.append(k)
            if ok:
                n.keywords = new_kw
                self.count += 1
        # N9: dict() -> {}, list() -> [], tuple() -> ()
        if isinstance(n.func, ast.Name) and not n.args and not n.keywords and n.func.id in ("dict", "list", "tuple"):
            self.count += 1
            lit = {"dict": ast.Dict(keys=[], values=[]), "list": ast.List(elts=[], ctx=ast.Load()), "tuple": ast.Tuple(elts=[], ctx=ast.Load())}[n.func.id]
            return ast.copy_location(lit, n)
        f = n.func
        if isinstance(f, ast.Attribute) and f.attr == "format" and isinstance(f.value, ast.Constant) and isinstance(f.value.value, str) and not n.keywords and not any(isinstance(a, ast.Starred) for a in n.args):
            fmt = f.value.value
            stripped = fmt.replace("{{", "").replace("}}", "")
            fields = _FIELD.findall(stripped)
            if "{" in _FIELD.sub("", stripped) or "}" in _FIELD.sub("", stripped):
                return n  # named fields, format specs, conversions: leave
            auto = all(x == "" for x in fields)
            manual = all(x != "" for x in fields)
            if not fields or not (auto or manual):
                return n
            idx = list(range(len(fields))) if auto else [int(x) for x in fields]
            if any(i >= len(n.args) for i in idx):
                return n
            parts: List[ast.AST] = []
            pos = 0
            k = 0
            for m in re.finditer(r"\{\{|\}\}|\{(\d*)\}", fmt):
                lit = fmt[pos:m.start()]
                if m.group(0) in ("{{", "}}"):
                    lit += m.group(0)[0]
                    if lit:
                        parts.append(ast.Constant(value=lit))
                    pos = m.end()
                    continue
                if lit:
                    parts.append(ast.Constant(value=lit))
                parts.append(ast.FormattedValue(value=n.args[idx[k]], conversion=-1, format_spec=None))
                k += 1
                pos = m.end()
            if fmt[pos:]:
                parts.append(ast.Constant(value=fmt[pos:]))
            # merge adjacent constants
            merged: List[ast.AST] = []
            for p in parts:
                if merged and isinstance(p, ast.Constant) and isinstance(merged[-1], ast.Constant):
                    merged[-1] = ast.Constant(value=merged[-1].value + p.value)
                else:
                    merged.append(p)
            self.count += 1
            return ast.fix_missing_locations(ast.copy_location(ast.JoinedStr(values=merged), n))
        return n

    # ---- statements
    def visit_Return(self, n: ast.Return):
        self.generic_visit(n)
        if isinstance(n.value, ast.IfExp):
            # N5: `return A if c else B`  ->  if c: return A / else: return B   (c is evaluated once, then one arm: identical)
            self.count += 1
            a = ast.copy_location(ast.Return(value=n.value.body), n)
            b = ast.copy_location(ast.Return(value=n.value.orelse), n)
            node = ast.If(test=n.value.test, body=[a], orelse=[b])
            return ast.fix_missing_locations(ast.copy_location(node, n))
        return n

    def visit_Assign(self, n: ast.Assign):
        self.generic_visit(n)
        if len(n.targets) == 1 and isinstance(n.targets[0], ast.Name) and isinstance(n.value, ast.IfExp):
            # N7: `x = A if c else B`  ->  if c: x = A / else: x = B
            self.count += 1
            a = ast.copy_location(ast.Assign(targets=[n.targets[0]], value=n.value.body, type_comment=None), n)
            b = ast.copy_location(ast.Assign(targets=[ast.Name(id=n.targets[0].id, ctx=ast.Store())], value=n.value.orelse, type_comment=None), n)
            node = ast.If(test=n.value.test, body=[a], orelse=[b])
            return ast.fix_missing_locations(ast.copy_location(node, n))
        return n

    def visit_If(self, n: ast.If):
        self.generic_visit(n)
        a, b = _single_assign(n.body), _single_assign(n.orelse)
        if a and b and a[0].id == b[0].id:
            h = _hasattr_of(n.test)
            if h and isinstance(a[1], ast.Attribute) and a[1].attr == h[1] and _same(a[1].value, h[0]):
                self.count += 1
                return ast.copy_location(ast.Assign(targets=[a[0]], value=_getattr_call(h[0], h[1], b[1], n), type_comment=None), n)
            i = _in_of(n.test)
            if i and isinstance(a[1], ast.Subscript) and _same(a[1].value, i[1]) and _same(a[1].slice, i[0]):
                self.count += 1
                return ast.copy_location(ast.Assign(targets=[a[0]], value=_get_call(i[1], i[0], b[1], n), type_comment=None), n)
        return n

    def visit_Try(self, n: ast.Try):
        self.generic_visit(n)
        if n.orelse or n.finalbody or len(n.handlers) != 1:
            return n
        h = n.handlers[0]
        a, b = _single_assign(n.body), _single_assign(h.body)
        if not (a and b and a[0].id == b[0].id) or h.name:
            return n
        et = ast.unparse(h.type) if h.type is not None else ""
        if et == "AttributeError" and isinstance(a[1], ast.Attribute) and _simple_ref(a[1].value):
            self.count += 1
            return ast.copy_location(ast.Assign(targets=[a[0]], value=_getattr_call(a[1].value, a[1].attr, b[1], n), type_comment=None), n)
        return n

    def visit_Match(self, n: ast.Match):
        self.generic_visit(n)
        if not _simple_ref(n.subject):
            return n
        tests: List[Optional[ast.AST]] = []
        for c in n.cases:
            t = self._pattern_test(n.subject, c.pattern)
            if t is False:
                return n
            if c.guard is not None:
                if t is None:
                    t = c.guard
                else:
                    t = ast.BoolOp(op=ast.And(), values=[t, c.guard])
            tests.append(t)
        # build the chain from the last case backwards
        orelse: List[ast.stmt] = []
        for c, t in reversed(list(zip(n.cases, tests))):
            if t is None:
                orelse = list(c.body)
                continue
            node = ast.If(test=t, body=list(c.body), orelse=orelse)
            ast.copy_location(node, c.pattern)
            orelse = [node]
        if not orelse:
            return n
        self.count += 1
        if len(orelse) == 1:
            return ast.fix_missing_locations(orelse[0])
        wrapper = ast.If(test=ast.Constant(value=True), body=orelse, orelse=[])
        return ast.fix_missing_locations(ast.copy_location(wrapper, n))

    def _pattern_test(self, subject, p):
        """expression equivalent to `p` matching `subject`; None for the irrefutable wildcard; False if not expressible"""
        if isinstance(p, ast.MatchAs):
            if p.pattern is None and p.name is None:
                return None
            return False
        if isinstance(p, ast.MatchClass):
            if p.patterns or p.kwd_patterns:
                return False
            return ast.Call(func=ast.Name(id="isinstance", ctx=ast.Load()), args=[subject, p.cls], keywords=[])
        if isinstance(p, ast.MatchValue):
            return ast.Compare(left=subject, ops=[ast.Eq()], comparators=[p.value])
        if isinstance(p, ast.MatchSingleton):
            return ast.Compare(left=subject, ops=[ast.Is()], comparators=[ast.Constant(value=p.value)])
        if isinstance(p, ast.MatchOr):
            subs = [self._pattern_test(subject, q) for q in p.patterns]
            if any(s is False or s is None for s in subs):
                return False
            # isinstance(x, A) or isinstance(x, B) -> isinstance(x, (A, B)) when all are class tests
            if all(isinstance(s, ast.Call) for s in subs):
                return ast.Call(func=ast.Name(id="isinstance", ctx=ast.Load()), args=[subject, ast.Tuple(elts=[s.args[1] for s in subs], ctx=ast.Load())], keywords=[])
            return ast.BoolOp(op=ast.Or(), values=subs)
        return False


def _merge_dict_steps(stmts: List[ast.stmt]) -> int:
    """N6: `d = {…}` immediately followed by `d["k"] = v` statements  ->  one display `d = {…, "k": v}`
    (same evaluation order; only while the stored values do not mention `d` and the keys are constants)."""
    n = 0
    i = 0
    while i < len(stmts):
        s = stmts[i]
        name = None
        if isinstance(s, ast.Assign) and len(s.targets) == 1 and isinstance(s.targets[0], ast.Name) and isinstance(s.value, ast.Dict):
            name = s.targets[0].id
        elif isinstance(s, ast.AnnAssign) and isinstance(s.target, ast.Name) and isinstance(s.value, ast.Dict):
            name = s.target.id
        if name is not None and all(k is not None for k in s.value.keys):
            j = i + 1
            while j < len(stmts):
                t = stmts[j]
                if (isinstance(t, ast.Assign) and len(t.targets) == 1 and isinstance(t.targets[0], ast.Subscript) and isinstance(t.targets[0].value, ast.Name)
                        and t.targets[0].value.id == name and isinstance(t.targets[0].slice, ast.Constant)
                        and not any(isinstance(x, ast.Name) and x.id == name for x in ast.walk(t.value))
                        and not any(isinstance(k, ast.Constant) and k.value == t.targets[0].slice.value for k in s.value.keys)):
                    s.value.keys.append(t.targets[0].slice)
                    s.value.values.append(t.value)
                    del stmts[j]
                    n += 1
                    continue
                break
        i += 1
    return n


def normalize(tree: ast.Module) -> int:
    nz = Normalizer()
    nz.visit(tree)
    for node in ast.walk(tree):
        for field in ("body", "orelse", "finalbody"):
            v = getattr(node, field, None)
            if isinstance(v, list) and v and isinstance(v[0], ast.stmt):
                nz.count += _merge_dict_steps(v)
    if nz.count:
        ast.fix_missing_locations(tree)
    return nz.count
