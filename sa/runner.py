"""Running one property's rules over a project: two readings of the same sources (see run_property)."""
from __future__ import annotations

import importlib

from .model import AnalysisError, Project
from . import report as R


def _run_view(prop: str, project: Project, tier: str) -> R.Report:
    mod = importlib.import_module(f"sa.checks.{prop.lower()}")
    rep = R.Report(prop=prop, tier=tier)
    try:
        mod.check(project, rep)
    except R.Abort as e:
        rep.notes.append(f"analysis stopped early after a finding: {e}")
    except AnalysisError as e:
        # a rule further on could not read its subject — if a finding that is not on the known list already stands, it is
        # the verdict (the unreadable shape is most likely a consequence of the same change); otherwise the run is undecided
        if rep.findings() and R.classify(rep)[1]:
            rep.notes.append(f"analysis stopped early after a finding: {e}")
        else:
            raise
    rep.check_nonvacuous()
    inl = getattr(project, "inliner", None)
    if inl is not None and inl.renamed:
        rep.renamed_units = {n.split(":")[-1].split(".")[-1]: o.split(":")[-1].split(".")[-1] for n, o in inl.renamed.items() if n.split(".")[-1] != o.split(".")[-1]}
    return rep


def run_property(prop: str, project: Project, tier: str) -> R.Report:
    """Two readings of the same sources: with helpers the rules do not know read at their call sites (the more precise
    one, preferred whenever it decides), and — only if that reading cannot be decided — as written."""
    inl = getattr(project, "inliner", None)
    if inl is None or not inl.inlined:
        return _run_view(prop, project, tier)
    try:
        rep = _run_view(prop, project, tier)
        rep.notes.append(f"{len(inl.inlined)} helper call(s) read at their call sites: " + "; ".join(sorted(set(inl.inlined))[:6]))
        return rep
    except AnalysisError as e:
        rep = _run_view(prop, project.raw_view(), tier)
        rep.notes.append(f"the reading with new helpers inlined was undecided ({e}); verdict from the sources as written")
        import os

        # the sources as written show new helpers as opaque calls: what that reading can do is clear the property or stay
        # undecided — a finding there is as likely an artefact of the opaque call as a defect (measured on the independent
        # behaviour-preserving corpus), so it is reported as undecided together with what the inlined reading could not read
        if os.environ.get("SA_RAW_VIEW_MAY_ALARM", "0") == "0" and rep.findings() and R.classify(rep)[1]:
            raise AnalysisError(f"{e} (and the sources as written, where the new helpers are opaque calls, would be flagged: {str(R.classify(rep)[1][0])[:120]})")
        return rep
