"""Seeing through helper functions that did not exist when the rules were confirmed.

The rules were written and confirmed against one decomposition of the package into functions
(`units_snapshot.json`: the qualified names of the reference tree).  A function that is *not* in that table
is a new helper (extracted from, or added to, a function the rules know).  Where it is called in statement
position — `x = [await] h(a)`, `[await] h(a)`, `return [await] h(a)`, `if [not] [await] h(a):` — the call is
replaced, on the parsed tree only, by the helper's body:

* parameters bound to plain names/constants are substituted, other arguments are bound to fresh temporaries first
  (evaluation order is kept: arguments, then body);
* the helper's locals get a unique suffix; free variables (closures, module names) are left alone;
* `return v` becomes `target = v`; this is done only when every `return` is in tail position once the
  statements following an `if` are pushed into its branches — no `return` inside a loop, a `match`, a `finally`,
  or followed by code the conversion would have to skip (then the helper is left alone and the rules see a call);
* for `return h(a)` call sites the helper's returns are kept as returns, with no restriction.

Generators, functions with nested definitions or lambdas, `global`, decorators other than staticmethod /
classmethod, star-arguments, recursion and methods called on another object than `self`/`cls` are never inlined.
A helper all of whose uses were inlined is dropped from the tree; one that is still referenced (passed as a
callback, spawned as a task) stays.  This is an identity on Python's semantics; its only purpose is that a rule
reads `f` after an "extract method" refactoring exactly as it read it before.
"""
from __future__ import annotations

import ast
import copy
import json
import os
from typing import Dict, List, Optional, Set, Tuple

SNAPSHOT = os.path.join(os.path.dirname(os.path.abspath(__file__)), "units_snapshot.json")
MAX_BODY = 80
MAX_ROUNDS = 6


class NotInlinable(Exception):
    pass


def fingerprint(fn: ast.AST) -> List[str]:
    """What a function is made of, independent of its own name and of the names of its locals: the names it calls,
    the attributes it touches, its string constants, the exception classes it handles."""
    toks: Set[str] = set()
    for n in _own(fn):
        if isinstance(n, ast.Call):
            f = n.func
            toks.add("call:" + (f.attr if isinstance(f, ast.Attribute) else f.id if isinstance(f, ast.Name) else "?"))
        elif isinstance(n, ast.Attribute):
            toks.add("attr:" + n.attr)
        elif isinstance(n, ast.Constant) and isinstance(n.value, str) and 2 < len(n.value) <= 60:
            toks.add("str:" + n.value)
        elif isinstance(n, ast.ExceptHandler) and n.type is not None:
            toks.add("except:" + ast.unparse(n.type))
        elif isinstance(n, (ast.While, ast.For, ast.AsyncFor, ast.With, ast.AsyncWith, ast.Try, ast.Raise, ast.Return, ast.Continue, ast.Break)):
            toks.add("stmt:" + type(n).__name__)
    return sorted(toks)


def load_snapshot() -> Optional[Dict[str, Set[str]]]:
    try:
        with open(SNAPSHOT) as fh:
            d = json.load(fh)
    except OSError:
        return None
    return {"fq": set(d["functions"]), "qual": {q.split(":", 1)[1] for q in d["functions"]}, "classes": set(d.get("classes", [])), "prints": d.get("fingerprints", {})}


# --------------------------------------------------------------------------- helpers on trees
def _is_func(n):
    return isinstance(n, (ast.FunctionDef, ast.AsyncFunctionDef))


def _own(fn):
    """nodes of fn's body, not descending into nested function/class bodies"""
    stack = list(fn.body)
    while stack:
        n = stack.pop()
        yield n
        if _is_func(n) or isinstance(n, (ast.ClassDef, ast.Lambda)):
            continue
        stack.extend(ast.iter_child_nodes(n))


def _contains_return(stmts) -> bool:
    for s in stmts:
        for n in _own(ast.Module(body=[s], type_ignores=[])):
            if isinstance(n, ast.Return):
                return True
    return False


def _always_exits(stmts) -> bool:
    """every path through `stmts` ends in return/raise/continue/break"""
    for s in stmts:
        if isinstance(s, (ast.Return, ast.Raise, ast.Continue, ast.Break)):
            return True
        if isinstance(s, ast.If) and s.orelse and _always_exits(s.body) and _always_exits(s.orelse):
            return True
        if isinstance(s, ast.Try) and not s.finalbody and _always_exits(s.body + s.orelse) and all(_always_exits(h.body) for h in s.handlers):
            return True
        if isinstance(s, (ast.With, ast.AsyncWith)) and _always_exits(s.body):
            return True
    return False


def _convert_returns(stmts: List[ast.stmt], mk) -> List[ast.stmt]:
    """Rewrite so that control reaches the end of the list exactly when the original returned or fell off;
    `mk(value_or_None, like)` builds the statement replacing `return value`."""
    out: List[ast.stmt] = []
    for i, s in enumerate(stmts):
        rest = stmts[i + 1:]
        if isinstance(s, ast.Return):
            out.append(mk(s.value, s))
            return out  # anything after a return is dead
        if not _contains_return([s]):
            out.append(s)
            continue
        if isinstance(s, ast.If):
            body = _convert_returns(list(s.body) + ([] if _always_exits(s.body) else copy.deepcopy(rest)), mk)
            orelse = _convert_returns(list(s.orelse) + ([] if (s.orelse and _always_exits(s.orelse)) else copy.deepcopy(rest)), mk)
            new = ast.If(test=s.test, body=body or [ast.Pass()], orelse=orelse)
            out.append(ast.copy_location(new, s))
            return out
        if isinstance(s, (ast.With, ast.AsyncWith)):
            if rest and not _always_exits(s.body):
                raise NotInlinable("return inside a with block that is followed by more code")
            new = copy.copy(s)
            new.body = _convert_returns(list(s.body), mk) or [ast.Pass()]
            out.append(new)
            if not rest:
                return out
            return out  # rest is dead (the block always exits)
        if isinstance(s, ast.Try):
            if _contains_return(s.finalbody):
                raise NotInlinable("return inside finally")
            parts_exit = _always_exits(s.body + s.orelse) and all(_always_exits(h.body) for h in s.handlers)
            if rest and not parts_exit:
                # paths that do not return continue with `rest`; paths that return must skip it: push rest into the
                # non-returning tails is not possible across handlers without duplicating under the try's protection
                raise NotInlinable("return inside try that is followed by more code")
            new = copy.copy(s)
            if s.orelse:
                new.body = list(s.body)
                if _contains_return(s.body):
                    raise NotInlinable("return in a try body that has an else clause")
                new.orelse = _convert_returns(list(s.orelse), mk) or [ast.Pass()]
            else:
                new.body = _convert_returns(list(s.body), mk) or [ast.Pass()]
            hs = []
            for h in s.handlers:
                h2 = copy.copy(h)
                h2.body = _convert_returns(list(h.body), mk) or [ast.Pass()]
                hs.append(h2)
            new.handlers = hs
            out.append(new)
            return out
        raise NotInlinable(f"return inside {type(s).__name__}")
    # fell off the end
    out.append(mk(None, stmts[-1] if stmts else None))
    return out


class _Renamer(ast.NodeTransformer):
    def __init__(self, rename: Dict[str, str], subst: Dict[str, ast.AST]):
        self.rename = rename
        self.subst = subst

    def visit_Name(self, n: ast.Name):
        if n.id in self.subst and isinstance(n.ctx, ast.Load):
            return ast.copy_location(copy.deepcopy(self.subst[n.id]), n)
        if n.id in self.rename:
            return ast.copy_location(ast.Name(id=self.rename[n.id], ctx=n.ctx), n)
        return n

    def visit_ExceptHandler(self, n):
        if n.name and n.name in self.rename:
            n.name = self.rename[n.name]
        self.generic_visit(n)
        return n

    def visit_Nonlocal(self, n):
        return n


class _ClosedExprs(ast.NodeTransformer):
    """Expressions made of literals only, of the kinds a helper applied to a constant argument produces:
    `'2025-06-18'.split('-')` → ['2025', '06', '18'];  len(<display>) → n;  int('06') → 6;  <display>[k] → its k-th element."""

    def __init__(self):
        self.n = 0

    @staticmethod
    def _lit_seq(e):
        return isinstance(e, (ast.List, ast.Tuple)) and all(isinstance(x, ast.Constant) for x in e.elts)

    def visit_Call(self, node):
        self.generic_visit(node)
        f = node.func
        if node.keywords:
            return node
        if isinstance(f, ast.Attribute) and f.attr == "split" and isinstance(f.value, ast.Constant) and isinstance(f.value.value, str) and len(node.args) == 1 and isinstance(node.args[0], ast.Constant) and isinstance(node.args[0].value, str) and node.args[0].value:
            self.n += 1
            return ast.copy_location(ast.List(elts=[ast.Constant(value=x) for x in f.value.value.split(node.args[0].value)], ctx=ast.Load()), node)
        if isinstance(f, ast.Name) and f.id == "len" and len(node.args) == 1:
            a = node.args[0]
            if self._lit_seq(a):
                self.n += 1
                return ast.copy_location(ast.Constant(value=len(a.elts)), node)
            if isinstance(a, ast.Constant) and isinstance(a.value, str):
                self.n += 1
                return ast.copy_location(ast.Constant(value=len(a.value)), node)
        if isinstance(f, ast.Name) and f.id == "int" and len(node.args) == 1 and isinstance(node.args[0], ast.Constant) and isinstance(node.args[0].value, (str, int)) and not isinstance(node.args[0].value, bool):
            try:
                v = int(node.args[0].value)
            except ValueError:
                return node
            self.n += 1
            return ast.copy_location(ast.Constant(value=v), node)
        return node

    def visit_Subscript(self, node):
        self.generic_visit(node)
        if isinstance(node.ctx, ast.Load) and self._lit_seq(node.value):
            k = node.slice
            if isinstance(k, ast.UnaryOp) and isinstance(k.op, ast.USub) and isinstance(k.operand, ast.Constant) and isinstance(k.operand.value, int):
                k = ast.Constant(value=-k.operand.value)
            if isinstance(k, ast.Constant) and isinstance(k.value, int) and not isinstance(k.value, bool) and -len(node.value.elts) <= k.value < len(node.value.elts):
                self.n += 1
                return ast.copy_location(node.value.elts[k.value], node)
        return node


def _settle_inlined_constants(fn: ast.AST) -> int:
    """After helpers were read in with literal arguments: fold what became closed, carry single-assignment temporaries of the
    inliner (`…_i7`) that hold a literal to their uses, and drop the arms a literal test rules out.  To a fixpoint."""
    import re as _re

    total = 0
    for _ in range(6):
        ce = _ClosedExprs()
        fn.body = [ce.visit(x) for x in fn.body]
        n = ce.n
        # pairwise form of `a_i1, b_i1 = (1, 2)`
        for holder in ast.walk(fn):
            for field in ("body", "orelse", "finalbody"):
                lst = getattr(holder, field, None)
                if not (isinstance(lst, list) and lst and isinstance(lst[0], ast.stmt)):
                    continue
                for i, st in enumerate(list(lst)):
                    if isinstance(st, ast.Assign) and len(st.targets) == 1 and isinstance(st.targets[0], ast.Tuple) and isinstance(st.value, ast.Tuple) and len(st.targets[0].elts) == len(st.value.elts) \
                            and all(isinstance(t, ast.Name) and _re.search(r"_i\d+$", t.id) for t in st.targets[0].elts) and all(isinstance(v, ast.Constant) for v in st.value.elts):
                        j = lst.index(st)
                        lst[j:j + 1] = [ast.copy_location(ast.Assign(targets=[t], value=v, type_comment=None), st) for t, v in zip(st.targets[0].elts, st.value.elts)]
                        n += 1
        # single-store inliner temporaries bound to a literal (or a display of literals that nothing mutates)
        stores = {}
        for x in ast.walk(fn):
            if isinstance(x, ast.Name) and isinstance(x.ctx, (ast.Store, ast.Del)):
                stores[x.id] = stores.get(x.id, 0) + 1
        binds = {}
        for x in ast.walk(fn):
            if isinstance(x, ast.Assign) and len(x.targets) == 1 and isinstance(x.targets[0], ast.Name) and _re.search(r"_i\d+$", x.targets[0].id) and stores.get(x.targets[0].id) == 1:
                v = x.value
                if isinstance(v, ast.Constant) or _ClosedExprs._lit_seq(v):
                    binds[x.targets[0].id] = v
        if binds:
            parents = {}
            for x in ast.walk(fn):
                for c in ast.iter_child_nodes(x):
                    parents[id(c)] = x
            for name, v in list(binds.items()):
                if not isinstance(v, ast.Constant):
                    # a display: only read by subscript / len / iteration-free uses
                    for x in ast.walk(fn):
                        if isinstance(x, ast.Name) and x.id == name and isinstance(x.ctx, ast.Load):
                            par = parents.get(id(x))
                            ok = (isinstance(par, ast.Subscript) and par.value is x and isinstance(par.ctx, ast.Load)) or (isinstance(par, ast.Call) and isinstance(par.func, ast.Name) and par.func.id == "len")
                            if not ok:
                                binds.pop(name, None)
                                break

            class Sub(ast.NodeTransformer):
                def visit_Name(self_, node):
                    if isinstance(node.ctx, ast.Load) and node.id in binds:
                        nonlocal n
                        n += 1
                        return ast.copy_location(copy.deepcopy(binds[node.id]), node)
                    return node

            fn.body = [Sub().visit(x) for x in fn.body]
        before = ast.dump(ast.Module(body=fn.body, type_ignores=[]))
        _ConstTests.never_none = _never_none_names(fn)
        try:
            ct = _ConstTests()
            new_body = []
            for x in fn.body:
                r = ct.visit(x)
                new_body += r if isinstance(r, list) else [r]
        finally:
            _ConstTests.never_none = set()
        fn.body = new_body or [ast.Pass()]
        if ast.dump(ast.Module(body=fn.body, type_ignores=[])) != before:
            n += 1
        total += n
        if not n:
            break
    if total:
        ast.fix_missing_locations(fn)
    return total


def _sink_selected_continuation(P, module, fn: ast.AST) -> int:
    """`model = _classify(data); if model is None: raise …; return model.model_validate(data)` with the classifier read in:
    every arm of the chain ends by choosing a value for `model` (a class, a function, a literal, None) and the statements
    after the chain only act on that choice.  Moved into the arms with the choice written out, they are the chain the
    selection was factored out of:  `if …: return JSONRPCRequest.model_validate(data)` … `else: raise …`."""
    n_done = 0

    def simple_choice(v) -> bool:
        if isinstance(v, ast.Constant):
            return True
        if isinstance(v, ast.Name):
            kind, _o = P.resolve_name(module.name, v.id)
            return kind in ("class", "func")
        return False

    def never_none(v) -> bool:
        return isinstance(v, ast.Name) or (isinstance(v, ast.Constant) and v.value is not None)

    def leaves(chain: ast.If, name: str):
        """[(stmt list, index)] of the final `name = choice` of every arm, or None if some arm does not end that way"""
        out = []

        def arm(stmts):
            if not stmts:
                return False
            last = stmts[-1]
            if isinstance(last, ast.If):
                return walk_if(last)
            if isinstance(last, ast.Assign) and len(last.targets) == 1 and isinstance(last.targets[0], ast.Name) and last.targets[0].id == name and simple_choice(last.value):
                out.append((stmts, len(stmts) - 1))
                return True
            return False

        def walk_if(i: ast.If):
            if not i.orelse:
                return False
            return arm(i.body) and arm(i.orelse)

        return out if walk_if(chain) else None

    changed = True
    while changed and n_done < 4:
        changed = False
        for holder in ast.walk(fn):
            for field in ("body", "orelse", "finalbody"):
                blk = getattr(holder, field, None)
                if not (isinstance(blk, list) and blk and isinstance(blk[0], ast.stmt)):
                    continue
                for i, st in enumerate(blk):
                    if not isinstance(st, ast.If) or i + 1 >= len(blk):
                        continue
                    rest = blk[i + 1:]
                    if len(rest) > 8 or any(isinstance(x, (ast.FunctionDef, ast.AsyncFunctionDef, ast.ClassDef)) for r in rest for x in ast.walk(r)):
                        continue
                    # the variable: loaded by the first statement after the chain, assigned at the end of every arm
                    cands = {x.id for x in ast.walk(rest[0]) if isinstance(x, ast.Name) and isinstance(x.ctx, ast.Load)}
                    for name in sorted(cands):
                        lv = leaves(st, name)
                        if not lv or len(lv) > 8:
                            continue
                        if any(isinstance(x, ast.Name) and x.id == name and isinstance(x.ctx, ast.Store) for r in rest for x in ast.walk(r)):
                            continue
                        # the name is used nowhere else in the function (only chosen in the chain, only read after it)
                        uses_elsewhere = [x for x in ast.walk(fn) if isinstance(x, ast.Name) and x.id == name and not any(x is y for r in rest + [st] for y in ast.walk(r))]
                        if uses_elsewhere:
                            continue
                        for stmts, k in lv:
                            choice = stmts[k].value

                            class Sub(ast.NodeTransformer):
                                def visit_Compare(self_, node):
                                    if len(node.ops) == 1 and isinstance(node.left, ast.Name) and node.left.id == name and isinstance(node.comparators[0], ast.Constant) and node.comparators[0].value is None and isinstance(node.ops[0], (ast.Is, ast.IsNot)) and never_none(choice):
                                        return ast.copy_location(ast.Constant(value=isinstance(node.ops[0], ast.IsNot)), node)
                                    self_.generic_visit(node)
                                    return node

                                def visit_Name(self_, node):
                                    if node.id == name and isinstance(node.ctx, ast.Load):
                                        return ast.copy_location(copy.deepcopy(choice), node)
                                    return node

                            moved = [Sub().visit(copy.deepcopy(r)) for r in rest]
                            ct = _ConstTests()
                            folded = []
                            for r in moved:
                                # literal tests (`if False:`) written by the substitution
                                if isinstance(r, ast.If) and isinstance(r.test, ast.Constant):
                                    folded += r.body if r.test.value else r.orelse
                                    continue
                                if isinstance(r, ast.If) and isinstance(r.test, ast.UnaryOp) and isinstance(r.test.op, ast.Not) and isinstance(r.test.operand, ast.Constant):
                                    folded += r.orelse if r.test.operand.value else r.body
                                    continue
                                q = ct.visit(r)
                                folded += q if isinstance(q, list) else [q]
                            for j_, r in enumerate(folded):
                                if isinstance(r, (ast.Raise, ast.Return, ast.Continue, ast.Break)):
                                    folded = folded[:j_ + 1]  # what followed an unconditional exit is gone with the arm that was ruled out
                                    break
                            stmts[k:k + 1] = folded or [ast.copy_location(ast.Pass(), st)]
                        del blk[i + 1:]
                        n_done += 1
                        changed = True
                        break
                    if changed:
                        break
                if changed:
                    break
            if changed:
                break
    if n_done:
        ast.fix_missing_locations(fn)
    return n_done


_NEVER_NONE_CALLS = {"time.time", "time.monotonic", "time.perf_counter", "time.time_ns", "len", "str", "int", "float", "list", "dict", "set", "tuple", "frozenset", "bool", "repr", "sorted", "uuid.uuid4"}


def _never_none_names(fn: ast.AST) -> set:
    """locals bound exactly once, to something that is never None (a clock reading, a display, a constructor's result)"""
    stores, vals = {}, {}
    for x in ast.walk(fn):
        if isinstance(x, ast.Name) and isinstance(x.ctx, (ast.Store, ast.Del)):
            stores[x.id] = stores.get(x.id, 0) + 1
        if isinstance(x, ast.arg):
            stores[x.arg] = stores.get(x.arg, 0) + 2
        if isinstance(x, ast.Assign) and len(x.targets) == 1 and isinstance(x.targets[0], ast.Name):
            vals[x.targets[0].id] = x.value
    out = set()
    for n, v in vals.items():
        if stores.get(n) != 1:
            continue
        if isinstance(v, (ast.List, ast.Dict, ast.Set, ast.Tuple, ast.JoinedStr)) or (isinstance(v, ast.Constant) and v.value is not None):
            out.add(n)
        elif isinstance(v, ast.Call) and ast.unparse(v.func) in _NEVER_NONE_CALLS and not any(isinstance(a, ast.Starred) for a in v.args):
            out.add(n)
    return out


class _ConstTests(ast.NodeTransformer):
    """After an argument that is a literal took a parameter's place: `A if None is not None else B` is B, `if None is None: S`
    is S.  Only tests made of literals are decided; everything else is left."""

    never_none: set = set()

    @staticmethod
    def _value(t):
        if isinstance(t, ast.Compare) and len(t.ops) == 1 and isinstance(t.ops[0], (ast.Is, ast.IsNot)) and isinstance(t.left, ast.Name) and t.left.id in _ConstTests.never_none \
                and isinstance(t.comparators[0], ast.Constant) and t.comparators[0].value is None:
            return True, isinstance(t.ops[0], ast.IsNot)
        if isinstance(t, ast.Constant):
            return True, t.value
        if isinstance(t, ast.UnaryOp) and isinstance(t.op, ast.Not):
            ok, v = _ConstTests._value(t.operand)
            return (True, not v) if ok else (False, None)
        if isinstance(t, ast.Compare) and len(t.ops) == 1 and isinstance(t.left, ast.Constant) and isinstance(t.comparators[0], ast.Constant):
            a, b = t.left.value, t.comparators[0].value
            singletons = (None, True, False)
            op = t.ops[0]
            if isinstance(op, (ast.Is, ast.IsNot)):
                if not (any(a is x for x in singletons) or any(b is x for x in singletons)):
                    return False, None  # identity of other literals is an implementation matter
                r = a is b
                return True, (r if isinstance(op, ast.Is) else not r)
            if isinstance(op, (ast.Eq, ast.NotEq)) and type(a) is type(b):
                return True, ((a == b) if isinstance(op, ast.Eq) else (a != b))
            if isinstance(op, (ast.Lt, ast.LtE, ast.Gt, ast.GtE)) and type(a) is type(b) and isinstance(a, (int, str)) and not isinstance(a, bool):
                return True, {ast.Lt: a < b, ast.LtE: a <= b, ast.Gt: a > b, ast.GtE: a >= b}[type(op)]
        return False, None

    def visit_IfExp(self, n):
        self.generic_visit(n)
        ok, v = self._value(n.test)
        if ok:
            return n.body if v else n.orelse
        return n

    def visit_If(self, n):
        self.generic_visit(n)
        ok, v = self._value(n.test)
        if ok and not isinstance(n.test, ast.Constant):
            arm = n.body if v else n.orelse
            return arm if arm else ast.copy_location(ast.Pass(), n)
        return n


# --------------------------------------------------------------------------- the pass
class Inliner:
    def __init__(self, project, snapshot):
        self.P = project
        self.snap = snapshot
        self.counter = 0
        self.inlined: List[str] = []
        self.skipped: Dict[str, str] = {}
        self.waiting = 0
        self.force = False
        self.renamed: Dict[str, str] = {}

    # which functions are new helpers
    def is_new(self, fi) -> bool:
        if fi.fq in self.snap["fq"]:
            return False
        if fi.qual in self.snap["qual"]:
            return False  # a known function that moved to another module
        if fi.name.startswith("__") and fi.name.endswith("__"):
            return False
        if fi.fq in self.renamed:
            return False  # a known unit under a new name
        if fi.fq in self.__dict__.get("lowered", ()):
            return False  # a method object written back as the function it stands for: a unit of its own
        return True

    def inlinable_def(self, fi) -> Optional[str]:
        fn = fi.node
        deco = [ast.unparse(d) for d in fn.decorator_list]
        if any(d not in ("staticmethod", "classmethod") for d in deco):
            return "decorated"
        if fn.args.vararg or fn.args.kwarg:
            return "star parameters"
        n_stmts = 0
        for n in _own(fn):
            if isinstance(n, ast.stmt):
                n_stmts += 1
            if _is_func(n) or isinstance(n, (ast.ClassDef, ast.Lambda)):
                return "nested definition"
            if isinstance(n, (ast.Yield, ast.YieldFrom, ast.Global)):
                return "generator/global"
            if isinstance(n, ast.Call) and isinstance(n.func, ast.Name) and n.func.id in ("locals", "vars", "super"):
                return "uses locals()/super()"
        if n_stmts > MAX_BODY:
            return "too large"
        return None

    def _find_renamed(self) -> None:
        """A function of the reference decomposition that is missing under its old name but whose substance is found under
        a new name is the same unit, renamed: it stays a unit (rules find it by role)."""
        prints = self.snap.get("prints") or {}
        present = set(self.P.funcs)
        missing = [fq for fq in self.snap["fq"] if fq not in present and fq.split(":", 1)[1] not in {f.qual for f in self.P.funcs.values()} and len(prints.get(fq, [])) >= 6]
        if not missing:
            return
        cands = [fi for fi in self.P.funcs.values() if self.is_new(fi)]
        cand_prints = {fi.fq: set(fingerprint(fi.node)) for fi in cands}
        for fq in missing:
            old = set(prints[fq])
            best, best_s = None, 0.0
            for fi in cands:
                new = cand_prints[fi.fq]
                if not new:
                    continue
                sim = len(old & new) / len(old | new)
                if sim > best_s:
                    best, best_s = fi, sim
            if best is not None and best_s >= 0.6 and best.fq not in self.renamed:
                self.renamed[best.fq] = fq

    def run(self) -> int:
        P = self.P
        total = 0
        self._find_renamed()
        self._late = False
        total += self._object_pass()
        for _ in range(MAX_ROUNDS):
            new = {fi.fq: fi for fi in P.funcs.values() if self.is_new(fi)}
            if not new:
                break
            # leaf-first: only inline helpers that do not themselves call another inlinable new helper
            changed = 0
            for caller in list(P.funcs.values()):
                changed += self._process_function(caller, new)
            total += changed
            if not changed:
                if self.waiting and not self.force:
                    # helpers that waited for an inner helper which sits in an expression position (never inlined)
                    self.force = True
                    self.waiting = 0
                    continue
                break
            self.waiting = 0
            P._reindex()
        # objects whose construction only became visible by reading a factory (`offer = Offer.build(…)` → `offer = Offer(…)`),
        # and objects made for one method call (left for now so that the method's own helpers were read first)
        self._late = True
        if self._object_pass():
            total += 1
            for _ in range(MAX_ROUNDS):
                new = {fi.fq: fi for fi in P.funcs.values() if self.is_new(fi)}
                changed = sum(self._process_function(caller, new) for caller in list(P.funcs.values()))
                total += changed
                if not changed:
                    break
                P._reindex()
        total += self._expression_pass()
        if total:
            touched = {x.split(" into ")[-1].split(" for ")[-1] for x in self.inlined}
            for fq in touched:
                fi = P.funcs.get(fq)
                if fi is not None:
                    _settle_inlined_constants(fi.node)
            from .normalize import normalize

            for m in P.modules.values():
                normalize(m.tree)  # what was read in at the call sites gets the same single spelling as the rest
                ast.fix_missing_locations(m.tree)
            # a call that only became a statement of its own through that spelling (`a, b = f(x) if c else g(x)` → two arms)
            # is read in now; one more normalisation settles what that brought
            P._reindex()
            more = 0
            self.force = True
            for _ in range(MAX_ROUNDS):
                new = {fi.fq: fi for fi in P.funcs.values() if self.is_new(fi)}
                if not new:
                    break
                changed = sum(self._process_function(caller, new) for caller in list(P.funcs.values()))
                more += changed
                if not changed:
                    break
                P._reindex()
            if more:
                total += more
                touched = {x.split(" into ")[-1].split(" for ")[-1] for x in self.inlined}
                for fq in touched:
                    fi = P.funcs.get(fq)
                    if fi is not None:
                        _settle_inlined_constants(fi.node)
                for m in P.modules.values():
                    normalize(m.tree)
                    ast.fix_missing_locations(m.tree)
            for fq in touched:
                fi = P.funcs.get(fq)
                if fi is not None:
                    _sink_selected_continuation(P, fi.module, fi.node)
            self._drop_unused()
            P._reindex()
        return total

    # ---- a small new class used as a local object: its state becomes locals of the user, its methods are read at the calls
    def _object_pass(self) -> int:
        """`framer = NewlineFramer(); … framer.feed(chunk) …` with NewlineFramer a class the reference decomposition does not
        know: if the object never leaves the function (only `v.method(…)` calls and `v.attr` reads), its constructor and
        methods are read at their call sites and every `v.attr` becomes the local `v__attr`.  Done on a copy of the
        function; kept only if nothing of the object is left afterwards."""
        P = self.P
        n = 0
        for caller in list(P.funcs.values()):
            try:
                n += self._scalarise_local_objects(caller)
            except NotInlinable:
                pass
        if n:
            P._reindex()
        return n

    def _new_class(self, module, name):
        kind, obj = self.P.resolve_name(module.name, name)
        if kind != "class":
            return None
        if f"{obj.module.name}:{obj.name}" in self.snap.get("classes", set()) or obj.name in {c.split(":")[-1] for c in self.snap.get("classes", set())}:
            return None
        if any(ast.unparse(b) != "object" for b in obj.node.bases) or obj.node.keywords:
            return None
        if any(isinstance(x, (ast.Assign, ast.AnnAssign)) and not (isinstance(x, ast.Assign) and all(isinstance(t, ast.Name) and t.id == "__slots__" for t in x.targets)) and not (isinstance(x, ast.AnnAssign) and x.value is None) for x in obj.node.body):
            return None  # class-level state
        return obj

    def _scalarise_local_objects(self, caller) -> int:
        from .model import FuncInfo

        fn = caller.node
        cands = {}
        for x in _own(fn):
            tgt = val = None
            if isinstance(x, ast.Assign) and len(x.targets) == 1 and isinstance(x.targets[0], ast.Name):
                tgt, val = x.targets[0].id, x.value
            elif isinstance(x, ast.AnnAssign) and isinstance(x.target, ast.Name) and x.value is not None:
                tgt, val = x.target.id, x.value
            if tgt and isinstance(val, ast.Call) and isinstance(val.func, ast.Name):
                ci = self._new_class(caller.module, val.func.id)
                if ci is not None:
                    cands.setdefault(tgt, []).append((x, ci))
        done = 0
        for v, defs in cands.items():
            if len({id(ci_) for _s, ci_ in defs}) != 1:
                continue
            stmt, ci = defs[0]
            # every binding of the name is a construction of this class; parameters and loop targets of the same name disqualify
            n_stores = sum(1 for x in _own(fn) if isinstance(x, ast.Name) and x.id == v and isinstance(x.ctx, ast.Store))
            n_none = sum(1 for x in _own(fn) if ((isinstance(x, ast.Assign) and len(x.targets) == 1 and isinstance(x.targets[0], ast.Name) and x.targets[0].id == v) or (isinstance(x, ast.AnnAssign) and isinstance(x.target, ast.Name) and x.target.id == v))
                         and isinstance(x.value, ast.Constant) and x.value.value is None)
            if v in {a.arg for a in fn.args.args + fn.args.kwonlyargs} or n_stores != len(defs) + n_none:
                continue
            if n_none:
                # `v = C(…)` on one arm, `v = None` on the other: only the callable-object reading applies
                methods = {f.name: f for f in self.P.funcs.values() if f.cls is ci and f.parent is None}
                if self._late and self._object_to_closures(caller, v, defs, ci, methods):
                    self.inlined.append(f"{ci.module.name}:{ci.name} (object `{v}` as closures) into {caller.fq}")
                    done += 1
                continue
            methods = {f.name: f for f in self.P.funcs.values() if f.cls is ci and f.parent is None}
            props = {m: f for m, f in methods.items() if any(ast.unparse(d) == "property" for d in f.node.decorator_list)}
            single = self._single_method_call(fn, v, methods, props) if len(defs) == 1 else None
            if single is not None:
                if not self._late:
                    continue  # decided after the method's own helpers were read
                mname = single.func.attr
                if self._lower_method_object(caller, v, stmt, ci, methods, single):
                    self.inlined.append(f"{ci.module.name}:{ci.name}.{mname} (method object `{v}`) as a function for {caller.fq}")
                    done += 1
                    continue
            work = copy.deepcopy(fn)
            # the copy's own constructor statements
            texts = {ast.unparse(s_) for s_, _c in defs}
            wstmts = [x for x in _own(work) if isinstance(x, (ast.Assign, ast.AnnAssign)) and ast.unparse(x) in texts]
            if len(wstmts) != len(defs):
                continue
            self._local_obj = (v, ci, methods)
            try:
                ok = self._inline_object_uses(caller, work, wstmts, v, ci, methods, props)
            finally:
                self._local_obj = None
            if not ok:
                # the object leaves the function (handed on as a callable, or a bound method of it is): its methods become
                # closures over its fields, which is what they are
                if self._late and self._object_to_closures(caller, v, defs, ci, methods):
                    self.inlined.append(f"{ci.module.name}:{ci.name} (object `{v}` as closures) into {caller.fq}")
                    done += 1
                continue
            fn.body = work.body
            ast.fix_missing_locations(fn)
            self.inlined.append(f"{ci.module.name}:{ci.name} (local object `{v}`) into {caller.fq}")
            done += 1
        return done

    def _object_to_closures(self, caller, v, defs, ci, methods) -> bool:
        """`guard = Guard(token, stream, rid); await guard.check(); wait(check=guard.check)` — or a class with `__call__`
        whose instance is handed on as the callable — with Guard a new class: after the constructor's statements every
        method becomes a nested function of the user (`guard__check`; `__call__` keeps the object's name) reading and
        writing the fields as the user's locals (`nonlocal guard__sent`).  That is the closure the class replaced."""
        fn = caller.node
        init = methods.get("__init__")
        if init is None or self.inlinable_def_init(init) is not None:
            return False
        # single-return properties are read where they are used (`v.has_token` → the expression over the fields)
        props = {}
        for n, g in methods.items():
            if [ast.unparse(d) for d in g.node.decorator_list] == ["property"]:
                body_ = [x for x in g.node.body if not (isinstance(x, ast.Expr) and isinstance(x.value, ast.Constant))]
                if len(body_) == 1 and isinstance(body_[0], ast.Return) and body_[0].value is not None and len(g.node.args.args) == 1:
                    props[n] = (g.node.args.args[0].arg, body_[0].value)
        methods = {n: g for n, g in methods.items() if n not in props}
        meths = {n: g for n, g in methods.items() if n != "__init__"}
        if not meths or any(g.node.decorator_list for g in methods.values()):
            return False

        def prop_expr(name):
            me_, e_ = props[name]

            class PF(ast.NodeTransformer):
                def visit_Attribute(self_, a):
                    if isinstance(a.value, ast.Name) and a.value.id == me_:
                        return ast.copy_location(ast.Name(id=f"{v}__{a.attr.lstrip('_')}", ctx=ast.Load()), a)
                    self_.generic_visit(a)
                    return a

            return PF().visit(copy.deepcopy(e_))
        if any(n.startswith("__") and n != "__call__" for n in meths):
            return False
        # nested functions of the user must not know the object
        for x in ast.walk(fn):
            if _is_func(x) and x is not fn and any(isinstance(y, ast.Name) and y.id == v for y in ast.walk(x)):
                return False
        work = copy.deepcopy(fn)
        texts = {ast.unparse(s_) for s_, _c in defs}
        wstmts = [x for x in _own(work) if isinstance(x, (ast.Assign, ast.AnnAssign)) and ast.unparse(x) in texts]
        if len(wstmts) != len(defs):
            return False
        init_fields = {t.attr for x in ast.walk(init.node) for t in ([x] if isinstance(x, ast.Attribute) else []) if isinstance(t.ctx, ast.Store) and isinstance(t.value, ast.Name) and t.value.id == init.node.args.args[0].arg}
        if init_fields & set(methods):
            return False
        # the methods as closures
        closures: List[ast.stmt] = []
        for mname, g in meths.items():
            node = copy.deepcopy(g.node)
            if not node.args.args or node.args.vararg or node.args.kwarg:
                return False
            me = node.args.args[0].arg
            node.args.args = node.args.args[1:]
            stored = set()
            bad = []

            class T(ast.NodeTransformer):
                def visit_Attribute(self_, a):
                    if isinstance(a.value, ast.Name) and a.value.id == me:
                        if a.attr in props and isinstance(a.ctx, ast.Load):
                            return ast.copy_location(prop_expr(a.attr), a)
                        if a.attr in methods:
                            if not isinstance(a.ctx, ast.Load) or a.attr == "__init__":
                                bad.append(a)
                            return ast.copy_location(ast.Name(id=(v if a.attr == "__call__" else f"{v}__{a.attr.lstrip('_')}"), ctx=ast.Load()), a)
                        if a.attr not in init_fields:
                            bad.append(a)
                        if not isinstance(a.ctx, ast.Load):
                            stored.add(a.attr)
                        return ast.copy_location(ast.Name(id=f"{v}__{a.attr.lstrip('_')}", ctx=a.ctx), a)
                    self_.generic_visit(a)
                    return a

                def visit_Name(self_, n_):
                    if n_.id == me:
                        bad.append(n_)
                    return n_

            node.body = [T().visit(x) for x in node.body]
            if bad:
                return False
            try:
                self._bring_names(caller, g)
            except NotInlinable:
                return False
            if stored:
                k = 1 if node.body and isinstance(node.body[0], ast.Expr) and isinstance(node.body[0].value, ast.Constant) and isinstance(node.body[0].value.value, str) else 0
                node.body.insert(k, ast.Nonlocal(names=sorted(f"{v}__{f.lstrip('_')}" for f in stored)))
            node.name = v if mname == "__call__" else f"{v}__{mname.lstrip('_')}"
            node.returns = None
            for a in node.args.args + node.args.kwonlyargs:
                a.annotation = None
            closures.append(node)
        # the constructor(s)
        for wstmt in wstmts:
            call = wstmt.value
            place = None
            for holder, field in self._stmt_lists(work):
                if wstmt in getattr(holder, field):
                    place = (holder, field)
            if place is None:
                return False
            stmts = getattr(*place)
            i = stmts.index(wstmt)
            fake = ast.Expr(value=ast.Call(func=ast.Attribute(value=ast.Name(id=v, ctx=ast.Load()), attr="__init__", ctx=ast.Load()), args=call.args, keywords=call.keywords))
            ast.copy_location(fake, wstmt)
            ast.fix_missing_locations(fake)
            self._local_obj = (v, ci, methods)
            try:
                rep = self._expand(caller, fake, "expr", fake.value, init, False)
            except NotInlinable:
                return False
            finally:
                self._local_obj = None
            stmts[i:i + 1] = rep + [ast.copy_location(copy.deepcopy(c), wstmt) for c in closures]
        # the user's own references
        has_call = "__call__" in meths
        parents = {}
        for x in ast.walk(work):
            for c in ast.iter_child_nodes(x):
                parents[id(c)] = x
        inserted = {id(y) for x in ast.walk(work) if _is_func(x) and x is not work and x.name in {c.name for c in closures} for y in ast.walk(x)}
        for x in ast.walk(work):
            if isinstance(x, ast.Name) and x.id == v and id(x) not in inserted:
                par = parents.get(id(x))
                if isinstance(par, ast.Attribute) and par.value is x:
                    if par.attr in methods and (par.attr == "__init__" or not isinstance(par.ctx, ast.Load)):
                        return False
                    if par.attr not in methods and par.attr not in init_fields and par.attr not in props:
                        return False
                    continue
                if isinstance(x.ctx, ast.Store):
                    continue  # `v = None` on the other arm
                if not has_call:
                    return False

        class U(ast.NodeTransformer):
            def visit_FunctionDef(self_, n_):
                return n_ if (n_ is not work and n_.name in {c.name for c in closures}) else self_.generic_visit(n_) or n_

            visit_AsyncFunctionDef = visit_FunctionDef

            def visit_Attribute(self_, a):
                if isinstance(a.value, ast.Name) and a.value.id == v:
                    if a.attr in props and isinstance(a.ctx, ast.Load):
                        return ast.copy_location(prop_expr(a.attr), a)
                    if a.attr in methods:
                        return ast.copy_location(ast.Name(id=(v if a.attr == "__call__" else f"{v}__{a.attr.lstrip('_')}"), ctx=ast.Load()), a)
                    return ast.copy_location(ast.Name(id=f"{v}__{a.attr.lstrip('_')}", ctx=a.ctx), a)
                self_.generic_visit(a)
                return a

        work.body = [U().visit(x) for x in work.body]

        class AA(ast.NodeTransformer):
            def visit_AnnAssign(self_, node):
                if isinstance(node.target, ast.Name) and node.target.id.startswith(f"{v}__") and node.value is not None:
                    return ast.copy_location(ast.Assign(targets=[node.target], value=node.value, type_comment=None), node)
                return node

        work.body = [AA().visit(x) for x in work.body]
        self._forward_captured(work, f"{v}__")
        fn.body = work.body
        ast.fix_missing_locations(fn)
        low = self.__dict__.setdefault("lowered", set())
        for c in closures:
            low.add(f"{caller.fq}.<locals>.{c.name}")
        return True

    def _forward_captured(self, work, prefix) -> None:
        """A field that is stored once, from a name of the user that is itself never rebound afterwards (`guard__stream =
        write_stream`), is that name: the closures read the user's variable, as the closure the class replaced did."""
        def stores_of(name):
            return [x for x in ast.walk(work) if isinstance(x, ast.Name) and x.id == name and isinstance(x.ctx, (ast.Store, ast.Del))]

        params = {a.arg for a in work.args.posonlyargs + work.args.args + work.args.kwonlyargs}
        nonlocals = {n_ for x in ast.walk(work) if isinstance(x, ast.Nonlocal) for n_ in x.names}
        for holder, field in self._stmt_lists(work):
            lst = getattr(holder, field)
            for st in list(lst):
                if not (isinstance(st, ast.Assign) and len(st.targets) == 1 and isinstance(st.targets[0], ast.Name) and st.targets[0].id.startswith(prefix) and isinstance(st.value, ast.Name)):
                    continue
                f_, src = st.targets[0].id, st.value.id
                if f_ in nonlocals or len(stores_of(f_)) != 1:
                    continue
                n_src = len(stores_of(src))
                if not ((src in params and n_src == 0) or (src not in params and n_src == 1 and src not in nonlocals)):
                    continue
                for x in ast.walk(work):
                    if isinstance(x, ast.Name) and x.id == f_ and isinstance(x.ctx, ast.Load):
                        x.id = src
                lst[lst.index(st)] = ast.copy_location(ast.Pass(), st)

    def _single_method_call(self, fn, v, methods, props):
        """The call `v.m(…)` when that is the only thing the function does with `v`, else None."""
        loads = [x for x in _own(fn) if isinstance(x, ast.Name) and x.id == v and isinstance(x.ctx, ast.Load)]
        if len(loads) != 1:
            return None
        for x in _own(fn):
            if isinstance(x, ast.Call) and isinstance(x.func, ast.Attribute) and x.func.value is loads[0] and x.func.attr in methods and x.func.attr not in props and not x.func.attr.startswith("__"):
                return x
        return None

    def _lower_method_object(self, caller, v, stmt, ci, methods, call) -> bool:
        """`v = C(a, b); … v.m(x)` with C a new class whose constructor only stores its arguments and whose fields nobody
        rebinds: the object is one function call spread over two statements.  Written back as that function —
        `C_m(a, b, x)` with every `self.f` in m's body replaced by the constructor parameter it was stored from — so that
        the unit boundaries are those of the reference decomposition (`_await_response(read_stream, req_id, …)` turned into a
        `_PendingRequest(read_stream, req_id, …).wait()` reads as before)."""
        fn = caller.node
        m = methods[call.func.attr]
        init = methods.get("__init__")
        if init is None or m.node.decorator_list or init.node.decorator_list or self.inlinable_def_init(init) is not None:
            return False
        if m.node.args.vararg or m.node.args.kwarg or m.node.args.kwonlyargs or m.node.args.posonlyargs or init.node.args.posonlyargs:
            return False
        ia = init.node.args
        me = ia.args[0].arg
        iparams = [a.arg for a in ia.args[1:]] + [a.arg for a in ia.kwonlyargs]
        fields: Dict[str, ast.AST] = {}
        for st in init.node.body:
            if isinstance(st, ast.Expr) and isinstance(st.value, ast.Constant):
                continue
            if isinstance(st, ast.Pass):
                continue
            tgt = val = None
            if isinstance(st, ast.Assign) and len(st.targets) == 1:
                tgt, val = st.targets[0], st.value
            elif isinstance(st, ast.AnnAssign) and st.value is not None:
                tgt, val = st.target, st.value
            if not (isinstance(tgt, ast.Attribute) and isinstance(tgt.value, ast.Name) and tgt.value.id == me and tgt.attr not in fields):
                return False
            if not (isinstance(val, ast.Constant) or (isinstance(val, ast.Name) and val.id in iparams)):
                return False
            fields[tgt.attr] = val
        # nobody else stores a field, and m uses `self` for its fields only
        for g in methods.values():
            if g is init or not g.node.args.args:
                continue
            gme = g.node.args.args[0].arg
            for x in ast.walk(g.node):
                if isinstance(x, ast.Attribute) and isinstance(x.value, ast.Name) and x.value.id == gme and not isinstance(x.ctx, ast.Load):
                    return False
        mme = m.node.args.args[0].arg if m.node.args.args else None
        if mme is None:
            return False
        parents = {}
        for x in ast.walk(m.node):
            for c in ast.iter_child_nodes(x):
                parents[id(c)] = x
        for x in ast.walk(m.node):
            if isinstance(x, ast.Name) and x.id == mme:
                par = parents.get(id(x))
                if not (isinstance(par, ast.Attribute) and par.value is x and par.attr in fields and isinstance(par.ctx, ast.Load)):
                    return False
            if isinstance(x, ast.arg) and x.arg == mme and x is not m.node.args.args[0]:
                return False
        # parameter list: the constructor's, then the method's
        mparams = [a.arg for a in m.node.args.args[1:]]
        used = {x.id for x in ast.walk(m.node) if isinstance(x, ast.Name)} | set(mparams)
        pname = {p: (p if p not in used else f"{p}_0") for p in iparams}
        if len(set(pname.values()) | set(mparams)) != len(pname) + len(mparams):
            return False
        n_idef, n_mdef = len(ia.defaults), len(m.node.args.defaults)
        if n_idef and n_mdef < len(mparams):
            return False  # a required parameter would follow an optional one
        new_args = ast.arguments(
            posonlyargs=[], args=[ast.arg(arg=pname[a.arg], annotation=None) for a in ia.args[1:]] + [ast.arg(arg=a.arg, annotation=None) for a in m.node.args.args[1:]],
            vararg=None, kwonlyargs=[ast.arg(arg=pname[a.arg], annotation=None) for a in ia.kwonlyargs], kw_defaults=[copy.deepcopy(d) for d in ia.kw_defaults], kwarg=None,
            defaults=[copy.deepcopy(d) for d in ia.defaults] + [copy.deepcopy(d) for d in m.node.args.defaults])

        class FS(ast.NodeTransformer):
            def visit_Attribute(self_, node):
                self_.generic_visit(node)
                if isinstance(node.value, ast.Name) and node.value.id == mme and node.attr in fields:
                    src = fields[node.attr]
                    new = ast.Name(id=pname[src.id], ctx=ast.Load()) if isinstance(src, ast.Name) else copy.deepcopy(src)
                    return ast.copy_location(new, node)
                return node

        body = [FS().visit(copy.deepcopy(x)) for x in m.node.body]
        fname = f"_{ci.name.strip('_')}_{m.name.strip('_')}"
        if any(f.name == fname for f in self.P.funcs.values()) or fname in ci.module.imports:
            return False
        cls_ = ast.AsyncFunctionDef if isinstance(m.node, ast.AsyncFunctionDef) else ast.FunctionDef
        new_def = cls_(name=fname, args=new_args, body=body, decorator_list=[], returns=None, type_comment=None)
        try:
            new_def.type_params = []
        except Exception:
            pass
        ast.copy_location(new_def, m.node)
        # the call site: constructor arguments (evaluated where the constructor stood), then the call's own
        ctor = stmt.value
        if any(isinstance(a, ast.Starred) for a in ctor.args + call.args) or any(k.arg is None for k in ctor.keywords + call.keywords):
            return False
        if len(ctor.args) > len(ia.args) - 1 or len(call.args) > len(mparams):
            return False
        pre: List[ast.stmt] = []
        kw: List[ast.keyword] = []

        def stable(a):
            if isinstance(a, ast.Constant):
                return True
            if isinstance(a, ast.Name):
                stores = sum(1 for x in _own(fn) if isinstance(x, ast.Name) and x.id == a.id and isinstance(x.ctx, ast.Store))
                is_param = a.id in {p.arg for p in fn.args.args + fn.args.kwonlyargs + fn.args.posonlyargs}
                nested_def = any(_is_func(x) and x.name == a.id for x in _own(fn))
                return (is_param and stores == 0) or (not is_param and stores == 1) or nested_def
            return False

        def arg_for(pn, a):
            if stable(a):
                return copy.deepcopy(a)
            tmp = f"{v}__{pn}"
            pre.append(ast.copy_location(ast.Assign(targets=[ast.Name(id=tmp, ctx=ast.Store())], value=copy.deepcopy(a), type_comment=None), stmt))
            return ast.Name(id=tmp, ctx=ast.Load())

        pos_names = [a.arg for a in ia.args[1:]]
        seen = set()
        for pn, a in zip(pos_names, ctor.args):
            kw.append(ast.keyword(arg=pname[pn], value=arg_for(pn, a)))
            seen.add(pn)
        for k in ctor.keywords:
            if k.arg not in iparams or k.arg in seen:
                return False
            kw.append(ast.keyword(arg=pname[k.arg], value=arg_for(k.arg, k.value)))
            seen.add(k.arg)
        for pn, a in zip(mparams, call.args):
            kw.append(ast.keyword(arg=pn, value=a))
        for k in call.keywords:
            if k.arg not in mparams:
                return False
            kw.append(ast.keyword(arg=k.arg, value=k.value))
        # commit: the constructor statement gives way to the argument temporaries, the call names the function
        for holder, field in self._stmt_lists(fn):
            lst = getattr(holder, field)
            if stmt in lst:
                i = lst.index(stmt)
                lst[i:i + 1] = pre or [ast.copy_location(ast.Pass(), stmt)]
                break
        else:
            return False
        call.func = ast.copy_location(ast.Name(id=fname, ctx=ast.Load()), call.func)
        call.args = []
        call.keywords = kw
        ci.module.tree.body.append(new_def)
        if caller.module is not ci.module:
            imp = ast.ImportFrom(module=ci.module.name, names=[ast.alias(name=fname, asname=None)], level=0)
            caller.module.tree.body.insert(0, imp)
            ast.fix_missing_locations(caller.module.tree)
        ast.fix_missing_locations(ci.module.tree)
        ast.fix_missing_locations(fn)
        self.__dict__.setdefault("lowered", set()).add(f"{ci.module.name}:{fname}")
        return True

    def _inline_object_uses(self, caller, work, wstmts, v, ci, methods, props) -> bool:
        from .model import FuncInfo

        # 1. the constructor(s): `v = C(args)` → the body of __init__ with self := v
        init = methods.get("__init__")
        for wstmt in (wstmts if isinstance(wstmts, list) else [wstmts]):
            call = wstmt.value
            holder_field = None
            for holder, field in self._stmt_lists(work):
                if wstmt in getattr(holder, field):
                    holder_field = (holder, field)
            if holder_field is None:
                return False
            holder, field = holder_field
            stmts = getattr(holder, field)
            i = stmts.index(wstmt)
            if init is None:
                if call.args or call.keywords:
                    return False
                stmts[i:i + 1] = [ast.copy_location(ast.Pass(), wstmt)]
            else:
                if self.inlinable_def_init(init) is not None:
                    return False
                fake = ast.Expr(value=ast.Call(func=ast.Attribute(value=ast.Name(id=v, ctx=ast.Load()), attr="__init__", ctx=ast.Load()), args=call.args, keywords=call.keywords))
                ast.copy_location(fake, wstmt)
                ast.fix_missing_locations(fake)
                rep = self._expand(caller, fake, "expr", fake.value, init, False)
                stmts[i:i + 1] = rep
        # 2. method calls, to a fixpoint
        for _round in range(12):
            changed = False
            for holder, field in self._stmt_lists(work):
                stmts = getattr(holder, field)
                i = 0
                while i < len(stmts):
                    st = stmts[i]
                    rep = self._try_object_statement(caller, st, v, methods, props)
                    if rep is not None:
                        stmts[i:i + 1] = rep
                        changed = True
                        i += len(rep)
                    else:
                        i += 1
            if not changed:
                break
        # 3. single-return properties read as attributes
        class PR(ast.NodeTransformer):
            def visit_Attribute(self_, node):
                self_.generic_visit(node)
                if isinstance(node.value, ast.Name) and node.value.id == v and node.attr in props and isinstance(node.ctx, ast.Load):
                    body = [x for x in props[node.attr].node.body if not (isinstance(x, ast.Expr) and isinstance(x.value, ast.Constant))]
                    if len(body) == 1 and isinstance(body[0], ast.Return) and body[0].value is not None:
                        me = props[node.attr].node.args.args[0].arg
                        return ast.copy_location(_Renamer({}, {me: ast.Name(id=v, ctx=ast.Load())}).visit(copy.deepcopy(body[0].value)), node)
                return node

        work.body = [PR().visit(x) for x in work.body]
        # 4. nothing of the object may be left but `v.attr`
        parents = {}
        for x in ast.walk(work):
            for c in ast.iter_child_nodes(x):
                parents[id(c)] = x
        for x in ast.walk(work):
            if isinstance(x, ast.Name) and x.id == v:
                par = parents.get(id(x))
                if not (isinstance(par, ast.Attribute) and par.value is x):
                    return False
                gp = parents.get(id(par))
                if par.attr in methods:
                    return False  # a bound method handed on (`check=v.check`), or a call that could not be read at its site
                if isinstance(gp, ast.Call) and gp.func is par and par.attr.startswith("__"):
                    return False  # a method call that could not be read at its site (calling a stored callable — `v.on_done()` with on_done a field — is a plain call of that local)
        # 5. `v.attr` → `v__attr`
        class SC(ast.NodeTransformer):
            def visit_Attribute(self_, node):
                self_.generic_visit(node)
                if isinstance(node.value, ast.Name) and node.value.id == v:
                    return ast.copy_location(ast.Name(id=f"{v}__{node.attr.lstrip('_')}", ctx=node.ctx), node)
                return node

        work.body = [SC().visit(x) for x in work.body]

        # `self.a: T = e` of the constructor became an annotated assignment to a plain name: write it as the assignment it is
        class AA(ast.NodeTransformer):
            def visit_AnnAssign(self_, node):
                if isinstance(node.target, ast.Name) and node.target.id.startswith(f"{v}__") and node.value is not None:
                    return ast.copy_location(ast.Assign(targets=[node.target], value=node.value, type_comment=None), node)
                return node

        work.body = [AA().visit(x) for x in work.body]
        return True

    def inlinable_def_init(self, fi) -> Optional[str]:
        why = self.inlinable_def(fi)
        if why is not None:
            return why
        if any(isinstance(x, ast.Return) and x.value is not None for x in _own(fi.node)):
            return "__init__ returns a value"
        return None

    def _try_object_statement(self, caller, s, v, methods, props) -> Optional[List[ast.stmt]]:
        """One statement whose value/test/iterable is `v.m(…)` (possibly awaited): the method read at the call."""
        def is_obj_call(e):
            c, aw = self._call_of(e)
            if c is not None and isinstance(c.func, ast.Attribute) and isinstance(c.func.value, ast.Name) and c.func.value.id == v and c.func.attr in methods and c.func.attr not in props:
                return c, aw
            return None, False

        kind = None
        call = awaited = None
        negate = False
        if isinstance(s, ast.Assign) and len(s.targets) == 1:
            call, awaited = is_obj_call(s.value)
            kind = "assign"
        elif isinstance(s, ast.AnnAssign) and s.value is not None and isinstance(s.target, ast.Name):
            call, awaited = is_obj_call(s.value)
            kind = "assign"
        elif isinstance(s, ast.Expr):
            call, awaited = is_obj_call(s.value)
            kind = "expr"
        elif isinstance(s, ast.Return) and s.value is not None:
            call, awaited = is_obj_call(s.value)
            kind = "return"
        elif isinstance(s, ast.If):
            t = s.test
            if isinstance(t, ast.UnaryOp) and isinstance(t.op, ast.Not):
                negate, t = True, t.operand
            call, awaited = is_obj_call(t)
            kind = "test"
        elif isinstance(s, (ast.For, ast.AsyncFor)):
            c, aw = is_obj_call(s.iter)
            if c is not None:
                # the iterable is evaluated once, before the loop: bind it first
                self.counter += 1
                tmp = f"items_i{self.counter}"
                pre = ast.Assign(targets=[ast.Name(id=tmp, ctx=ast.Store())], value=s.iter, type_comment=None)
                ast.copy_location(pre, s)
                s2 = copy.copy(s)
                s2.iter = ast.copy_location(ast.Name(id=tmp, ctx=ast.Load()), s.iter)
                ast.fix_missing_locations(pre)
                return [pre, s2]
        if call is None:
            return None
        g = methods[call.func.attr]
        if self.inlinable_def(g) is not None or awaited != isinstance(g.node, ast.AsyncFunctionDef):
            return None
        try:
            return self._expand(caller, s, kind, call, g, negate)
        except NotInlinable:
            return None

    # ---- helpers that are one expression: `def h(a, b): return <expr>` used anywhere in an expression
    def _expression_pass(self) -> int:
        from .model import FuncInfo

        P = self.P
        n_total = 0
        for _ in range(3):
            new = {fi.fq: fi for fi in P.funcs.values() if self.is_new(fi)}
            single = {}
            for fq, fi in new.items():
                body = [x for x in fi.node.body if not (isinstance(x, ast.Expr) and isinstance(x.value, ast.Constant) and isinstance(x.value.value, str))]
                # `if p is None: p = E` in front of the return is the expression with `(E if p is None else p)` for p
                params_ = {a.arg for a in fi.node.args.posonlyargs + fi.node.args.args + fi.node.args.kwonlyargs}
                defaults_ = {}
                while len(body) >= 2 and isinstance(body[0], ast.If) and not body[0].orelse and len(body[0].body) == 1 and isinstance(body[0].body[0], ast.Assign) and len(body[0].body[0].targets) == 1:
                    t_, a_ = body[0].test, body[0].body[0]
                    if not (isinstance(t_, ast.Compare) and len(t_.ops) == 1 and isinstance(t_.ops[0], ast.Is) and isinstance(t_.left, ast.Name) and t_.left.id in params_ and t_.left.id not in defaults_
                            and isinstance(t_.comparators[0], ast.Constant) and t_.comparators[0].value is None and isinstance(a_.targets[0], ast.Name) and a_.targets[0].id == t_.left.id
                            and not any(isinstance(x, ast.Name) and x.id == t_.left.id for x in ast.walk(a_.value))):
                        break
                    defaults_[t_.left.id] = a_.value
                    body = body[1:]
                if len(body) == 1 and isinstance(body[0], ast.Return) and body[0].value is not None and (self.inlinable_def(fi) is None or (defaults_ and self.inlinable_def(fi) is None)):
                    if not any(isinstance(x, (ast.Yield, ast.YieldFrom, ast.NamedExpr)) for x in ast.walk(body[0].value)):
                        expr_ = body[0].value
                        if defaults_:
                            class _D(ast.NodeTransformer):
                                def visit_Name(self_, node):
                                    if isinstance(node.ctx, ast.Load) and node.id in defaults_:
                                        return ast.copy_location(ast.IfExp(test=ast.Compare(left=ast.Name(id=node.id, ctx=ast.Load()), ops=[ast.Is()], comparators=[ast.Constant(value=None)]), body=copy.deepcopy(defaults_[node.id]), orelse=ast.Name(id=node.id, ctx=ast.Load())), node)
                                    return node

                            expr_ = ast.fix_missing_locations(_D().visit(copy.deepcopy(expr_)))
                        single[fq] = (fi, expr_)
            if not single:
                break
            n = 0
            inl = self

            for caller in list(P.funcs.values()):
                class T(ast.NodeTransformer):
                    def visit_FunctionDef(self, node):
                        return node if node is not caller.node else self.generic_visit(node) or node

                    visit_AsyncFunctionDef = visit_FunctionDef

                    def visit_Lambda(self, node):
                        return node

                    def visit_Await(self, node):
                        if isinstance(node.value, ast.Call):
                            node.value._awaited = True
                        self.generic_visit(node)
                        c = node.value
                        if isinstance(c, ast.Name) and getattr(c, "_inlined_async", False):
                            return c
                        if getattr(node.value, "_inlined_async", False):
                            return node.value
                        return node

                    def visit_Call(self, node):
                        self.generic_visit(node)
                        nonlocal n
                        g = inl._resolve(caller, node)
                        if not isinstance(g, FuncInfo) or g.fq not in single or g is caller:
                            return node
                        fi, expr = single[g.fq]
                        if inl._receiver_problem(caller, node, fi) is not None:
                            return node
                        if isinstance(fi.node, ast.AsyncFunctionDef) != bool(getattr(node, "_awaited", False)):
                            return node  # a coroutine object that is not awaited on the spot (or an awaited sync call)
                        deco = [ast.unparse(d) for d in fi.node.decorator_list]
                        params = [a.arg for a in fi.node.args.posonlyargs + fi.node.args.args]
                        bound_first = fi.cls is not None and "staticmethod" not in deco
                        pos = params[1:] if bound_first and params else params
                        kwonly = [a.arg for a in fi.node.args.kwonlyargs]
                        defaults = dict(zip(params[len(params) - len(fi.node.args.defaults):], fi.node.args.defaults))
                        for a, d in zip(fi.node.args.kwonlyargs, fi.node.args.kw_defaults):
                            if d is not None:
                                defaults[a.arg] = d
                        if any(isinstance(a, ast.Starred) for a in node.args) or any(k.arg is None for k in node.keywords) or len(node.args) > len(pos):
                            return node
                        binding = dict(zip(pos, node.args))
                        for k in node.keywords:
                            if k.arg not in pos + kwonly or k.arg in binding:
                                return node
                            binding[k.arg] = k.value
                        for p_ in pos + kwonly:
                            if p_ not in binding:
                                if p_ not in defaults:
                                    return node
                                binding[p_] = defaults[p_]

                        def simple(a):
                            while isinstance(a, ast.Attribute):
                                a = a.value
                            return isinstance(a, (ast.Name, ast.Constant)) or (isinstance(a, ast.UnaryOp) and isinstance(a.operand, ast.Constant))

                        uses = {}
                        for x in ast.walk(expr):
                            if isinstance(x, ast.Name) and x.id in binding:
                                uses[x.id] = uses.get(x.id, 0) + 1
                        # an argument that is not a plain reference may only be substituted if the parameter is used exactly once
                        if any(not simple(a) and uses.get(p_, 0) != 1 for p_, a in binding.items()):
                            return node
                        if sum(1 for p_, a in binding.items() if not simple(a)) > 1:
                            return node  # evaluation order among several effectful arguments could change
                        subst = dict(binding)
                        if bound_first and params and params[0] != getattr(node.func.value, "id", None):
                            subst[params[0]] = node.func.value
                        new_expr = _Renamer({}, subst).visit(copy.deepcopy(expr))
                        ast.copy_location(new_expr, node)
                        ast.fix_missing_locations(new_expr)
                        if isinstance(fi.node, ast.AsyncFunctionDef):
                            new_expr._inlined_async = True
                        n += 1
                        inl.inlined.append(f"{fi.fq} into {caller.fq}")
                        return new_expr

                caller.node.body = [T().visit(x) for x in caller.node.body]
            n_total += n
            if not n:
                break
            P._reindex()
        return n_total

    # ---- per caller
    def _process_function(self, caller, new) -> int:
        n = 0
        for holder, field in self._stmt_lists(caller.node):
            stmts = getattr(holder, field)
            i = 0
            while i < len(stmts):
                s = stmts[i]
                rep = self._try_statement(caller, s, new)
                if rep is not None:
                    stmts[i:i + 1] = rep
                    n += 1
                    i += len(rep)
                else:
                    i += 1
        return n

    def _stmt_lists(self, fn):
        """every (node, field) holding a statement list inside fn, nested functions excluded; innermost last"""
        out = []
        stack = [fn]
        while stack:
            n = stack.pop()
            for field in ("body", "orelse", "finalbody"):
                v = getattr(n, field, None)
                if isinstance(v, list) and v and isinstance(v[0], ast.stmt):
                    out.append((n, field))
                    for c in v:
                        if not (_is_func(c) or isinstance(c, ast.ClassDef)):
                            stack.append(c)
            for h in getattr(n, "handlers", []) or []:
                stack.append(h)
            for c in getattr(n, "cases", []) or []:
                stack.append(c)
        return out

    def _call_of(self, e) -> Tuple[Optional[ast.Call], bool]:
        if isinstance(e, ast.Await) and isinstance(e.value, ast.Call):
            return e.value, True
        if isinstance(e, ast.Call):
            return e, False
        return None, False

    def _try_statement(self, caller, s, new) -> Optional[List[ast.stmt]]:
        kind = None
        call = awaited = None
        negate = False
        if isinstance(s, ast.Assign) and len(s.targets) == 1:
            call, awaited = self._call_of(s.value)
            kind = "assign"
        elif isinstance(s, ast.AnnAssign) and s.value is not None and isinstance(s.target, ast.Name):
            call, awaited = self._call_of(s.value)
            kind = "assign"
        elif isinstance(s, ast.Expr):
            call, awaited = self._call_of(s.value)
            kind = "expr"
        elif isinstance(s, ast.Return) and s.value is not None:
            call, awaited = self._call_of(s.value)
            kind = "return"
        elif isinstance(s, ast.If):
            t = s.test
            # `if A and helper(x): S` (no else) is `if A: if helper(x): S` — the helper is still only called when A holds
            if isinstance(t, ast.BoolOp) and isinstance(t.op, ast.And) and not s.orelse and len(t.values) >= 2:
                from .model import FuncInfo as _FI

                last = t.values[-1]
                inner = last.operand if isinstance(last, ast.UnaryOp) and isinstance(last.op, ast.Not) else last
                c_, _aw = self._call_of(inner)
                g_ = self._resolve(caller, c_) if c_ is not None else None
                if isinstance(g_, _FI) and g_.fq in new:
                    outer_t = t.values[0] if len(t.values) == 2 else ast.copy_location(ast.BoolOp(op=ast.And(), values=t.values[:-1]), t)
                    inner_if = ast.copy_location(ast.If(test=last, body=s.body, orelse=[]), s)
                    outer_if = ast.copy_location(ast.If(test=outer_t, body=[inner_if], orelse=[]), s)
                    return [ast.fix_missing_locations(outer_if)]
            if isinstance(t, ast.UnaryOp) and isinstance(t.op, ast.Not):
                negate, t = True, t.operand
            call, awaited = self._call_of(t)
            kind = "test"
        from .model import FuncInfo

        if call is None or not (isinstance(self._resolve(caller, call), FuncInfo) and self._resolve(caller, call).fq in new):
            hoisted = self._hoist_inner_call(caller, s, new)
            if hoisted is not None:
                return hoisted
        if call is None:
            return None
        g = self._resolve(caller, call)

        if not isinstance(g, FuncInfo) or g.fq not in new or g is caller:
            return None
        why = self.inlinable_def(g)
        if why is None and awaited != isinstance(g.node, ast.AsyncFunctionDef):
            why = "await/async mismatch"
        # leaf-first
        if why is None:
            for c in _own(g.node):
                if isinstance(c, ast.Call):
                    h = self._resolve(g, c)
                    if isinstance(h, FuncInfo) and h.fq in new and h is not g and self.inlinable_def(h) is None and h.fq not in self.skipped and not self.force:
                        self.waiting += 1
                        return None  # wait for the next round
                    if h is g:
                        why = "recursive"
        if why is None:
            why = self._receiver_problem(caller, call, g)
        if why is not None:
            self.skipped[g.fq] = why
            return None
        try:
            return self._expand(caller, s, kind, call, g, negate)
        except NotInlinable as e:
            self.skipped[g.fq] = str(e)
            return None

    # ---- a helper call in expression position: `return a, h(x)` / `f(h(x))` / `v = [h(x), b]`
    def _hoist_inner_call(self, caller, s, new) -> Optional[List[ast.stmt]]:
        """If the first thing the statement evaluates (after plain names/constants) is a call to a new helper, bind that
        call to a temporary in front of the statement (same evaluation order) and let the statement use the temporary."""
        from .model import FuncInfo

        if isinstance(s, ast.Return) and s.value is not None:
            root = s.value
        elif isinstance(s, ast.Assign) and len(s.targets) == 1 and isinstance(s.targets[0], ast.Name):
            root = s.value
        elif isinstance(s, ast.Expr):
            root = s.value
        else:
            return None

        def simple(n):
            while isinstance(n, ast.Attribute):
                n = n.value
            return isinstance(n, (ast.Name, ast.Constant))

        found = []  # (parent, field, index)

        def walk(n, depth) -> bool:
            """visit in evaluation order; True = stop (something effectful was met)"""
            if depth > 4:
                return True
            kids = []
            if isinstance(n, (ast.Tuple, ast.List, ast.Set)):
                kids = [(n, "elts", i) for i in range(len(n.elts))]
            elif isinstance(n, ast.Call):
                if simple(n.func):
                    kids = []
                elif isinstance(n.func, ast.Attribute):
                    kids = [(n.func, "value", None)]  # `h(x).decode()`: the receiver is evaluated first
                else:
                    return True
                kids += [(n, "args", i) for i in range(len(n.args))] + [(k, "value", None) for k in n.keywords]
            elif isinstance(n, ast.Await):
                kids = [(n, "value", None)]
            elif isinstance(n, ast.Dict):
                for i in range(len(n.keys)):
                    if n.keys[i] is not None and not simple(n.keys[i]):
                        return True
                    kids.append((n, "values", i))
            else:
                return True
            for parent, field, idx in kids:
                child = getattr(parent, field) if idx is None else getattr(parent, field)[idx]
                if simple(child):
                    continue
                c, awaited = self._call_of(child)
                if c is not None:
                    g = self._resolve(caller, c)
                    if isinstance(g, FuncInfo) and g.fq in new and g is not caller:
                        found.append((parent, field, idx, child))
                        return True
                if walk(child, depth + 1):
                    return True
                if isinstance(child, (ast.Call, ast.Await)):
                    return True  # an effectful sibling was evaluated: later calls cannot be moved in front of it
            return False

        walk(root, 0)
        if not found:
            return None
        parent, field, idx, child = found[0]
        self.counter += 1
        tmp = f"hoisted_i{self.counter}"
        bind = ast.copy_location(ast.Assign(targets=[ast.Name(id=tmp, ctx=ast.Store())], value=child, type_comment=None), s)
        ref = ast.copy_location(ast.Name(id=tmp, ctx=ast.Load()), child)
        if idx is None:
            setattr(parent, field, ref)
        else:
            getattr(parent, field)[idx] = ref
        ast.fix_missing_locations(bind)
        rep = self._try_statement(caller, bind, new)
        if rep is None:
            # could not inline after all: undo
            if idx is None:
                setattr(parent, field, child)
            else:
                getattr(parent, field)[idx] = child
            return None
        return rep + [s]

    _COMMON_METHOD_NAMES = {"get", "items", "keys", "values", "append", "extend", "pop", "update", "copy", "clear", "send", "receive", "close", "aclose", "cancel", "result", "done", "set", "wait",
                            "strip", "split", "join", "format", "lower", "upper", "startswith", "endswith", "encode", "decode", "read", "write", "add", "remove", "index", "count", "sort", "run", "start", "stop"}

    def _resolve(self, caller, call):
        """P.resolve_call, plus: a call `<object>.m(…)` on an object of unknown type resolves to the one method named `m`
        in the whole package when that method is new (absent from the reference decomposition) and no other class defines
        the name — logic moved onto a record class (`session.is_expired(now, age)`, `rec.touch(now)`) is then read at the
        call site like any other new helper."""
        from .model import FuncInfo

        g = self.P.resolve_call(caller, call)
        if g is not None or not isinstance(call.func, ast.Attribute):
            return g
        m = call.func.attr
        if m in self._COMMON_METHOD_NAMES or m.startswith("__"):
            return None
        recv = call.func.value
        if isinstance(recv, ast.Name) and recv.id in ("self", "cls"):
            return None
        cache = self.__dict__.setdefault("_by_method_name", None)
        if cache is None:
            cache = {}
            for fi in self.P.funcs.values():
                if fi.cls is not None and fi.parent is None:
                    cache.setdefault(fi.name, []).append(fi)
            self._by_method_name = cache
        cands = cache.get(m, [])
        if len(cands) == 1 and self.is_new(cands[0]):
            return cands[0]
        return None

    def _receiver_problem(self, caller, call, g) -> Optional[str]:
        deco = [ast.unparse(d) for d in g.node.decorator_list]
        if g.cls is None:
            return None
        f = call.func
        if not isinstance(f, ast.Attribute):
            return "method called without receiver"
        if isinstance(f.value, ast.Name) and f.value.id in ("self", "cls"):
            return None
        if "staticmethod" in deco:
            return None
        if "classmethod" in deco and isinstance(f.value, ast.Name) and f.value.id == getattr(g.cls, "name", None):
            return None  # `Offer.build(…)`: the factory's `cls` is the class named at the call
        # another object, named by a plain reference (`rec`, `self.sessions[sid]`, `entry.info`): the method's `self` is that reference

        def plain(e):
            if isinstance(e, (ast.Name, ast.Constant)):
                return True
            if isinstance(e, ast.Attribute):
                return plain(e.value)
            if isinstance(e, ast.Subscript):
                return plain(e.value) and plain(e.slice)
            return False

        if isinstance(f.value, ast.Name):
            # `await guard.check()` here and `wait(check=guard.check)` there: the bound method is a unit that somebody else
            # calls too, so it is read as one (the closure the object stands for), not dissolved at this call site
            called = {id(c.func) for c in ast.walk(caller.node) if isinstance(c, ast.Call)}
            if any(isinstance(a, ast.Attribute) and isinstance(a.value, ast.Name) and a.value.id == f.value.id and a.attr == f.attr and isinstance(a.ctx, ast.Load) and id(a) not in called for a in ast.walk(caller.node)):
                return "the bound method is also handed on as a value"
        if plain(f.value) and self.P.resolve_call(caller, call) is None:
            return None
        return "method called on another object"

    def _bring_names(self, caller, g) -> None:
        """A helper read into a function of another module keeps the meaning of the module-level names it uses: a name the
        caller's module does not bind is imported there; a name it binds to something else makes the helper unreadable here."""
        if caller.module is g.module:
            return
        import builtins

        P = self.P
        fn = g.node
        bound = {a.arg for a in fn.args.posonlyargs + fn.args.args + fn.args.kwonlyargs}
        loads = set()
        for n in ast.walk(fn):
            if isinstance(n, ast.Name):
                (loads if isinstance(n.ctx, ast.Load) else bound).add(n.id)
            elif isinstance(n, ast.ExceptHandler) and n.name:
                bound.add(n.name)
            elif isinstance(n, ast.alias):
                bound.add((n.asname or n.name).split(".")[0])
        top = caller
        while top.parent is not None:
            top = top.parent
        caller_locals = {n.id for n in ast.walk(top.node) if isinstance(n, ast.Name) and isinstance(n.ctx, ast.Store)} | {a.arg for n in ast.walk(top.node) if isinstance(n, ast.arguments) for a in n.posonlyargs + n.args + n.kwonlyargs}
        for name in sorted(loads - bound):
            if hasattr(builtins, name):
                continue
            src = P.resolve_name(g.module.name, name)
            if src == (None, None):
                continue
            if name in caller_locals:
                raise NotInlinable(f"`{name}` is a local at the call site")
            dst = P.resolve_name(caller.module.name, name)
            if dst == (None, None):
                imp = ast.ImportFrom(module=g.module.name, names=[ast.alias(name=name, asname=None)], level=0)
                caller.module.tree.body.insert(0, ast.fix_missing_locations(imp))
                caller.module.imports[name] = (g.module.name, name)
                continue
            a, b = src[1], dst[1]
            if src[0] == "const" and dst[0] == "const":
                same = a[1] is b[1] or ast.dump(a[1]) == ast.dump(b[1])
            else:
                same = src[0] == dst[0] and (a is b or a == b)
            if not same:
                raise NotInlinable(f"`{name}` names something else at the call site")

    def _expand(self, caller, s, kind, call, g, negate) -> List[ast.stmt]:
        self._bring_names(caller, g)
        self.counter += 1
        k = self.counter
        fn = g.node
        deco = [ast.unparse(d) for d in fn.decorator_list]
        params = [a.arg for a in fn.args.posonlyargs + fn.args.args]
        kwonly = [a.arg for a in fn.args.kwonlyargs]
        defaults = dict(zip(params[len(params) - len(fn.args.defaults):], fn.args.defaults))
        for a, d in zip(fn.args.kwonlyargs, fn.args.kw_defaults):
            if d is not None:
                defaults[a.arg] = d
        bound_first = g.cls is not None and "staticmethod" not in deco
        pos = params[1:] if bound_first and params else params
        if any(isinstance(a, ast.Starred) for a in call.args) or any(kw.arg is None for kw in call.keywords) or len(call.args) > len(pos):
            raise NotInlinable("star arguments")
        binding: Dict[str, ast.AST] = {}
        order: List[str] = []
        for p, a in zip(pos, call.args):
            binding[p] = a
            order.append(p)
        for kw in call.keywords:
            if kw.arg not in pos + kwonly or kw.arg in binding:
                raise NotInlinable("unknown keyword")
            binding[kw.arg] = kw.value
            order.append(kw.arg)
        for p in pos + kwonly:
            if p not in binding:
                if p not in defaults:
                    raise NotInlinable("missing argument")
                binding[p] = defaults[p]
                order.append(p)
        stored = set()
        for n in _own(fn):
            if isinstance(n, ast.Name) and isinstance(n.ctx, (ast.Store, ast.Del)):
                stored.add(n.id)
            elif isinstance(n, ast.ExceptHandler) and n.name:
                stored.add(n.name)
        nonlocals = {x for n in _own(fn) if isinstance(n, ast.Nonlocal) for x in n.names}
        stored -= nonlocals
        rename = {v: f"{v}_i{k}" for v in stored}
        subst: Dict[str, ast.AST] = {}
        prologue: List[ast.stmt] = []
        for p in order:
            a = binding[p]
            simple = isinstance(a, (ast.Name, ast.Constant)) or (isinstance(a, ast.Attribute) and isinstance(a.value, ast.Name) and a.value.id == "self") or (isinstance(a, ast.UnaryOp) and isinstance(a.op, (ast.USub, ast.UAdd)) and isinstance(a.operand, ast.Constant))
            if simple and p not in stored:
                subst[p] = a
            else:
                rename[p] = f"{p}_i{k}"
                st = ast.Assign(targets=[ast.Name(id=rename[p], ctx=ast.Store())], value=copy.deepcopy(a), type_comment=None)
                prologue.append(ast.copy_location(st, s))
        if bound_first and params:
            me = params[0]
            recv = call.func.value  # `self` or `cls`
            if me != getattr(recv, "id", None):
                subst[me] = recv
        body = [copy.deepcopy(x) for x in fn.body]
        if body and isinstance(body[0], ast.Expr) and isinstance(body[0].value, ast.Constant) and isinstance(body[0].value.value, str):
            body = body[1:]
        rn = _Renamer(rename, subst)
        body = [rn.visit(x) for x in body]
        if any(isinstance(a, ast.Constant) for a in subst.values()):
            ct = _ConstTests()
            folded: List[ast.stmt] = []
            for x in body:
                r = ct.visit(x)
                folded += r if isinstance(r, list) else [r]
            body = folded or [ast.copy_location(ast.Pass(), s)]

        if kind == "return":
            out = prologue + body
            if not _always_exits(body):
                out.append(ast.copy_location(ast.Return(value=None), s))
        else:
            if kind == "assign":
                target = s.targets[0] if isinstance(s, ast.Assign) else s.target

                def mk(v, like):
                    st = ast.Assign(targets=[copy.deepcopy(target)], value=v if v is not None else ast.Constant(value=None), type_comment=None)
                    return ast.copy_location(st, like if like is not None else s)
            elif kind == "expr":
                def mk(v, like):
                    if v is None or isinstance(v, (ast.Name, ast.Constant)):
                        return ast.copy_location(ast.Pass(), like if like is not None else s)
                    return ast.copy_location(ast.Expr(value=v), like if like is not None else s)
            else:  # test
                tmp = f"cond_i{k}"

                def mk(v, like):
                    st = ast.Assign(targets=[ast.Name(id=tmp, ctx=ast.Store())], value=v if v is not None else ast.Constant(value=None), type_comment=None)
                    return ast.copy_location(st, like if like is not None else s)
            conv = _convert_returns(body, mk) if body else [mk(None, s)]
            out = prologue + conv
            if kind == "test":
                newtest: ast.AST = ast.Name(id=tmp, ctx=ast.Load())
                if negate:
                    newtest = ast.UnaryOp(op=ast.Not(), operand=newtest)
                s2 = copy.copy(s)
                s2.test = ast.copy_location(newtest, s.test)
                out.append(s2)
        for x in out:
            ast.fix_missing_locations(x)
        self.inlined.append(f"{g.fq} into {caller.fq}")
        return out

    # ---- remove helpers nobody refers to any more
    def _drop_unused(self):
        P = self.P
        done = {x.split(" into ")[0] for x in self.inlined}
        for fq in done:
            fi = P.funcs.get(fq)
            if fi is None or fi.parent is not None:
                continue
            name = fi.name
            used = False
            named = False
            for m in P.modules.values():
                means_it = None
                for n in ast.walk(m.tree):
                    if n is fi.node:
                        continue
                    if isinstance(n, ast.Name) and n.id == name and isinstance(n.ctx, ast.Load):
                        if means_it is None:
                            means_it = P.resolve_name(m.name, name)[1] is fi
                        if means_it:  # (a local variable that happens to share the name is not a use)
                            used = True
                    elif isinstance(n, ast.Attribute) and n.attr == name and isinstance(n.ctx, ast.Load):
                        # (a method of the same name on another module's class — `self._route_message` in another carrier — is not a use)
                        if fi.cls is None or m is fi.module or not (isinstance(n.value, ast.Name) and n.value.id in ("self", "cls")):
                            used = True
                    elif isinstance(n, ast.alias) and n.name == name:
                        named = True
                    elif isinstance(n, ast.Constant) and n.value == name:
                        named = True
                    if used:
                        break
                if used:
                    break
            if used:
                continue
            if named:
                # still exported (`__all__`, a re-export) but every use inside the package was read at its call site: the
                # definition stays, and rules that look at every construct of the package know it has been read already
                self.__dict__.setdefault("read_elsewhere", set()).add(fq)
                continue
            # remove the def from its holder
            holders = [fi.module.tree] + [c for c in ast.walk(fi.module.tree) if isinstance(c, (ast.ClassDef, ast.If, ast.Try))]
            for h in holders:
                for field in ("body", "orelse", "finalbody"):
                    v = getattr(h, field, None)
                    if isinstance(v, list) and fi.node in v:
                        v.remove(fi.node)
                        if not v and field == "body":
                            v.append(ast.Pass())


def see_through_new_helpers(project) -> Optional[Inliner]:
    if os.environ.get("VERIF_NO_INLINE") == "1":
        return None
    snap = load_snapshot()
    if snap is None:
        return None
    inl = Inliner(project, snap)
    inl.run()
    return inl
