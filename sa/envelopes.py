"""Recognition of JSON-RPC envelope construction through wrappers (inlined to depth 3)."""
from __future__ import annotations

import ast
from typing import Dict, Optional, Tuple

from .model import ClassInfo, FuncInfo, Project, bind_args, call_name, walk_local

ENVELOPE_CLASSES = {
    "JSONRPCRequest": "request",
    "JSONRPCNotification": "notification",
    "JSONRPCResponse": "response",
    "JSONRPCError": "error",
}


def envelope_call(P: Project, fi: FuncInfo, call: ast.Call, depth: int = 0) -> Optional[Dict[str, Optional[ast.AST]]]:
    """If `call` (occurring in `fi`) builds an envelope, return
    {'kind', 'id', 'code', 'message', 'result', 'method', 'params'} with the
    argument expressions *of this call site* that flow into those members
    (None when the member is not set from an argument)."""
    target = P.resolve_call(fi, call)
    if isinstance(target, ClassInfo):
        kind = ENVELOPE_CLASSES.get(target.name)
        if kind is None or target.module.name != "chuk_mcp.protocol.messages.json_rpc_message":
            return None
        kw = {k.arg: k.value for k in call.keywords if k.arg}
        out = {"kind": kind, "id": kw.get("id"), "method": kw.get("method"), "params": kw.get("params"), "result": kw.get("result"), "code": None, "message": None, "error": kw.get("error")}
        return out
    if not isinstance(target, FuncInfo) or depth > 3:
        return None
    # a wrapper: exactly one return whose value is (or contains at top level) an envelope call
    rets = [n for n in walk_local(target.node) if isinstance(n, ast.Return) and n.value is not None]
    inner = None
    for r in rets:
        v = r.value
        if isinstance(v, ast.Call):
            e = envelope_call(P, target, v, depth + 1)
            if e is not None:
                inner = e
    if inner is None:
        return None
    binding = bind_args(target, call, method=target.cls is not None)
    out: Dict[str, Optional[ast.AST]] = {"kind": inner["kind"]}

    def through(expr: Optional[ast.AST]) -> Optional[ast.AST]:
        """Map an expression of the wrapper body back to the call site's argument."""
        if expr is None:
            return None
        if isinstance(expr, ast.Name):
            if expr.id in binding:
                return binding[expr.id]
            d = target.param_default(expr.id)
            if expr.id in target.params():
                return d if d is not None else ast.Name(id=f"<unbound:{expr.id}>", ctx=ast.Load())
            # a local of the wrapper: look at its single assignment
            assigns = [s for s in walk_local(target.node) if (isinstance(s, ast.Assign) and any(isinstance(t, ast.Name) and t.id == expr.id for t in s.targets))
                       or (isinstance(s, ast.AnnAssign) and isinstance(s.target, ast.Name) and s.target.id == expr.id and s.value is not None)]
            if len(assigns) == 1:
                return assigns[0].value if not isinstance(assigns[0].value, ast.Name) else through(assigns[0].value)
            return expr
        return expr

    for k in ("id", "method", "params", "result"):
        out[k] = through(inner.get(k))
    out["code"] = through(inner.get("code"))
    out["message"] = through(inner.get("message"))
    # the error dict built inside the wrapper: {"code": code, "message": message}
    err = inner.get("error")
    if err is not None:
        ev = through(err)

        def members(d: ast.Dict) -> Dict[str, ast.AST]:
            return {kk.value: vv for kk, vv in zip(d.keys, d.values) if isinstance(kk, ast.Constant) and kk.value in ("code", "message")}

        arms = [ev]
        if isinstance(ev, ast.Name) and ev.id not in target.params():
            # a local bound on several arms (`if data is None: error = {…} else: error = {…, "data": data}`), never changed afterwards
            binds = [s.value for s in walk_local(target.node) if isinstance(s, ast.Assign) and any(isinstance(t, ast.Name) and t.id == ev.id for t in s.targets)]
            touched = [n for n in walk_local(target.node) if (isinstance(n, ast.Subscript) and isinstance(n.ctx, (ast.Store, ast.Del)) and isinstance(n.value, ast.Name) and n.value.id == ev.id
                                                             and isinstance(n.slice, ast.Constant) and n.slice.value in ("code", "message"))
                       or (isinstance(n, ast.Call) and isinstance(n.func, ast.Attribute) and isinstance(n.func.value, ast.Name) and n.func.value.id == ev.id)
                       or (isinstance(n, ast.AugAssign) and isinstance(n.target, ast.Name) and n.target.id == ev.id)]
            if binds and not touched:
                arms = binds
        while any(isinstance(a, ast.IfExp) for a in arms):
            # `{…} if data is None else {…, "data": data}`: every arm is a display; a member counts when all arms agree on it
            arms = [b for a in arms for b in ((a.body, a.orelse) if isinstance(a, ast.IfExp) else (a,))]
        if arms and all(isinstance(a, ast.Dict) for a in arms):
            ms = [members(a) for a in arms]
            for key in ("code", "message"):
                vals = [m.get(key) for m in ms]
                if all(v is not None for v in vals) and len({ast.unparse(v) for v in vals}) == 1:
                    out[key] = through(vals[0])
        out["error"] = ev
    return out
