"""Reading a sibling property's obligations for a clause this property shares with it.

`lift(P, R, "C02", {"R3"}, "R5", text, prefix)` runs C02's rules into a report of their own and re-issues the obligations of
the named rule(s) under this property's rule R5 — same construct, same verdict, same diagnosis.  If the sibling's rules
cannot read their subject, nothing is issued here and a note says so: that check reports the unreadable shape itself (exit 2),
and this property's own rules stand on their own."""
from __future__ import annotations

import importlib
from typing import Iterable

from .model import AnalysisError, Project
from .report import Abort, Report


_ACTIVE: set = set()


def lift(P: Project, R: Report, prop: str, rules: Iterable[str], as_rule: str, text: str, prefix: str, min_n: int = 1, suffix: str = "", select=None) -> int:
    mod = importlib.import_module(f"sa.checks.{prop.lower()}")
    sub = Report(prop=prop, tier=R.tier)
    undecided = None
    # two properties may read each other's obligations (C06 ⇄ C17): the one being lifted from does not lift back
    if R.prop in _ACTIVE or prop in _ACTIVE:
        if prop in _ACTIVE:
            return 0
    _ACTIVE.add(R.prop)
    try:
        mod.check(P, sub)
    except Abort:
        pass
    except AnalysisError as e:
        undecided = str(e)
    finally:
        _ACTIVE.discard(R.prop)
    obs = [o for o in sub.obligations if o.rule in set(rules) and (select is None or select(o))]
    if len(obs) < min_n and all(o.ok for o in obs):
        if undecided is not None:
            R.notes.append(f"{as_rule} not evaluated: {prop}'s rules could not read their subject ({undecided[:140]})")
            return 0
        raise AnalysisError(f"anchor: {prop} produced {len(obs)} obligation(s) under {sorted(rules)}, fewer than the {min_n} expected")
    R.rule(as_rule, text)
    for o in obs:
        R.ob(as_rule, prefix + o.key, o.ok, o.where, o.detail + (suffix if not o.ok else ""))
    return len(obs)
