"""Demonstration of known finding C08-R3 against the real code (not run by any check).

A well-formed JSON-RPC *request* (it has an id) whose method is the registered
name `notifications/initialized` gets no response: the core handler returns
(None, None) whatever the message is, and the dispatcher passes that on."""
import anyio
from chuk_mcp.server.protocol_handler import ProtocolHandler
from chuk_mcp.protocol.types.info import ServerInfo
from chuk_mcp.protocol.types.capabilities import ServerCapabilities
from chuk_mcp.protocol.messages.json_rpc_message import JSONRPCRequest


async def main():
    h = ProtocolHandler(ServerInfo(name="s", version="1"), ServerCapabilities())
    resp, _ = await h.handle_message(JSONRPCRequest(id=5, method="notifications/initialized"))
    print("response:", resp)
    assert resp is None, "finding no longer reproduces"
    print("REPRODUCED: a request with id 5 received no response")


anyio.run(main)
