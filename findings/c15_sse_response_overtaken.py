"""Demonstration (runs against the real code in /repo): the legacy SSE transport lets a notification
overtake the response the server sent *before* it.

The server answers a POST with 202 and then writes, in one flush of its event stream,
    event: message  data: <response to the request>
    event: message  data: <notification>
The reader task resolves the request's future for the response (the sender task will route it when it
next runs) and routes the notification itself, at once.  The read stream therefore yields
[notification, response]; the stdio carrier yields [response, notification] for the same server output.

exit 1 = order altered (the defect is present), exit 0 = order preserved.
usage: PYTHONPATH=/repo/src /venv/bin/python findings/c15_sse_response_overtaken.py
"""
import asyncio
import json
import sys

import anyio
import httpx

from chuk_mcp.protocol.messages.json_rpc_message import create_request
from chuk_mcp.transports.sse import transport as sse_mod
from chuk_mcp.transports.sse.parameters import SSEParameters
from chuk_mcp.transports.sse.transport import SSETransport


class FakeServer:
    def __init__(self):
        self.events = asyncio.Queue()

    async def stream(self):
        yield b"event: endpoint\ndata: /messages/?session_id=s1\n\n"
        while True:
            c = await self.events.get()
            if c is None:
                return
            yield c

    async def handle(self, request: httpx.Request) -> httpx.Response:
        if request.method == "GET":
            return httpx.Response(200, headers={"content-type": "text/event-stream"}, content=self.stream())
        body = json.loads(request.content)
        if "id" in body:
            resp = {"jsonrpc": "2.0", "id": body["id"], "result": {"ok": True}}
            note = {"jsonrpc": "2.0", "method": "notifications/message", "params": {"data": "after the response"}}
            burst = "".join(f"event: message\ndata: {json.dumps(m)}\n\n" for m in (resp, note))
            self.events.put_nowait(burst.encode())
        return httpx.Response(202, text="Accepted")


async def main() -> int:
    server = FakeServer()
    real = httpx.AsyncClient

    def factory(*a, **kw):
        kw["transport"] = httpx.MockTransport(server.handle)
        return real(*a, **kw)

    sse_mod.httpx.AsyncClient = factory
    try:
        t = SSETransport(SSEParameters(url="http://fake.test", timeout=5.0))
        async with t:
            r, w = await t.get_streams()
            await w.send(create_request(method="tools/list", params={}, id="req-1"))
            got = []
            with anyio.fail_after(5):
                while len(got) < 2:
                    m = await r.receive()
                    got.append("response" if getattr(m, "method", None) is None else "notification")
            server.events.put_nowait(None)
    finally:
        sse_mod.httpx.AsyncClient = real
    print("server wrote: ['response', 'notification']   read stream yielded:", got)
    if got != ["response", "notification"]:
        print("C15 ordering clause violated: the carrier altered the relative order of a response and a notification")
        return 1
    return 0


if __name__ == "__main__":
    sys.exit(asyncio.run(main()))
