"""Demonstration of the C11 findings against the real Streamable HTTP transport
(not run by any check).  A mock httpx transport plays the server; for each
server behaviour we count what reaches the read stream for one request with id 1.

Expected by the property: exactly one terminal message with id 1 in every case."""
import asyncio
import json
import sys

import httpx

from chuk_mcp.transports.http.transport import StreamableHTTPTransport
from chuk_mcp.transports.http.parameters import StreamableHTTPParameters

RESP = {"jsonrpc": "2.0", "id": 1, "result": {"ok": True}}
NOTE = {"jsonrpc": "2.0", "method": "notifications/message", "params": {"level": "info", "data": "x"}}
J = json.dumps

CASES = {
    # name: (status, content-type, body, expected number of messages with id 1)
    "sse, with event field and space (control)": (200, "text/event-stream", f"event: message\ndata: {J(RESP)}\n\n", 1),
    "(repaired) sse, data: without space": (200, "text/event-stream", f"event: message\ndata:{J(RESP)}\n\n", 1),
    "(repaired) sse, event: without space": (200, "text/event-stream", f"event:message\ndata: {J(RESP)}\n\n", 1),
    "(repaired) sse, no event field (default type message)": (200, "text/event-stream", f"data: {J(RESP)}\n\n", 1),
    "R1 sse body with only a notification (no response)": (200, "text/event-stream", f"event: message\ndata: {J(NOTE)}\n\n", 1),
    "R1 sse-looking body under text/plain, no response": (200, "text/plain", f"data: {J(NOTE)}\n\n", 1),
    "(repaired) 202 with an unparsable body": (202, "text/plain", "accepted", 1),
    "(repaired) JSON array body": (200, "application/json", J([NOTE, RESP]), 1),
}


async def run_case(status, ctype, body):
    def handler(request: httpx.Request) -> httpx.Response:
        return httpx.Response(status, headers={"content-type": ctype}, content=body.encode())

    real = httpx.AsyncClient

    class Patched(real):
        def __init__(self, *a, **kw):
            kw["transport"] = httpx.MockTransport(handler)
            super().__init__(*a, **kw)

    httpx.AsyncClient = Patched
    try:
        t = StreamableHTTPTransport(StreamableHTTPParameters(url="http://test/mcp", timeout=2.0))
        async with t:
            r, w = await t.get_streams()
            await t._send_message_internal({"jsonrpc": "2.0", "id": 1, "method": "ping"})
            got = []
            while True:
                try:
                    got.append(r.receive_nowait())
                except Exception:
                    break
            return [m for m in got if getattr(m, "id", None) == 1]
    finally:
        httpx.AsyncClient = real


async def main():
    bad = []
    for name, (status, ctype, body, want) in CASES.items():
        got = await run_case(status, ctype, body)
        verdict = "ok" if len(got) == want else "FINDING"
        print(f"{verdict:8} {name}: {len(got)} message(s) with id 1 (expected {want})")
        if name.startswith("R") and len(got) == want:
            bad.append(name)
        if not name.startswith("R") and len(got) != want:
            bad.append(name)
    assert not bad, f"no longer as recorded: {bad}"
    print("REPRODUCED: the R1 cases leave the request without its terminal message; the repaired cases deliver exactly one")


import logging
logging.disable(logging.CRITICAL)
asyncio.run(main())
