"""Leaving the SSE client context while one request waits in the 202 branch and a second one is queued.

The fake server announces its endpoint, acknowledges every POST with 202 and never answers on the event stream.
Two requests are written, the body leaves at once.  Exit 0 if leaving returns within 3 s, 1 if it hangs."""
import asyncio, json, logging, sys
import httpx
import chuk_mcp.transports.sse.transport as mod
from chuk_mcp.protocol.messages.json_rpc_message import JSONRPCMessage
from chuk_mcp.transports.sse import SSEParameters, sse_client

logging.disable(logging.CRITICAL)


class Body(httpx.AsyncByteStream):
    def __init__(self, q): self.q = q
    async def __aiter__(self):
        while True:
            item = await self.q.get()
            if item is None: return
            yield item
    async def aclose(self): pass


class Server(httpx.AsyncBaseTransport):
    def __init__(self):
        self.events = asyncio.Queue(); self.posts = 0
    async def handle_async_request(self, request):
        if request.method == "GET":
            self.events.put_nowait(b"event: endpoint\ndata: /messages/?session_id=demo\n\n")
            return httpx.Response(200, headers={"content-type": "text/event-stream"}, stream=Body(self.events))
        self.posts += 1
        return httpx.Response(202, text="Accepted")


async def scenario(n_requests):
    server = Server(); real = httpx.AsyncClient
    def factory(*a, **k):
        k["transport"] = server
        return real(*a, **k)
    mod.httpx.AsyncClient = factory
    try:
        async def use():
            async with sse_client(SSEParameters(url="http://sse.test", timeout=30.0)) as (r, w):
                for i in range(n_requests):
                    await w.send(JSONRPCMessage(jsonrpc="2.0", id=f"req-{i}", method="tools/list"))
                await asyncio.sleep(0.2)   # the first request is now waiting for its event
        t = asyncio.ensure_future(use())
        done, pending = await asyncio.wait({t}, timeout=3.0)
        hung = bool(pending)
        if hung:
            t.cancel()
            try: await asyncio.wait_for(t, 2.0)
            except BaseException: pass
        return hung, server.posts
    finally:
        mod.httpx.AsyncClient = real


async def main():
    bad = 0
    for n in (1, 2, 3):
        hung, posts = await scenario(n)
        print(f"{n} request(s) outstanding at exit: POSTs {posts}, leaving the context {'HUNG (> 3 s)' if hung else 'returned'}")
        bad += hung
    return 1 if bad else 0

sys.exit(asyncio.run(main()))
