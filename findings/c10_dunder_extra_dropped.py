"""Demonstration (runs against the real code): under the no-Pydantic fallback backend an unknown wire member whose
name starts with two underscores was dropped by model_dump, while the Pydantic backend keeps it.

Found by C10-R2 ("the fallback dump leaves a member out only at the caller's request"); repaired in /repo by
commit 0790a2d.  exit 1 = a member is lost by one of the backends, exit 0 = both keep every member.

usage: PYTHONPATH=/repo/src /venv/bin/python findings/c10_dunder_extra_dropped.py
"""
import json
import os
import subprocess
import sys

WIRE = {"type": "text", "text": "x", "__vendor": 1, "_meta": {"a": 1}}
CODE = (
    "import json,sys;from chuk_mcp.protocol.types.content import TextContent;"
    "print(json.dumps(TextContent.model_validate(json.loads(sys.argv[1])).model_dump(by_alias=True, exclude_none=True)))"
)


def run(force_fallback: bool):
    env = dict(os.environ)
    if force_fallback:
        env["MCP_FORCE_FALLBACK"] = "1"
    else:
        env.pop("MCP_FORCE_FALLBACK", None)
    r = subprocess.run([sys.executable, "-c", CODE, json.dumps(WIRE)], env=env, capture_output=True, text=True)
    if r.returncode != 0:
        print(r.stderr)
        sys.exit(2)
    return json.loads(r.stdout)


bad = 0
for name, fb in (("pydantic", False), ("fallback", True)):
    out = run(fb)
    lost = sorted(set(WIRE) - set(out))
    print(f"[{name}] dumped {out}" + (f"  LOST: {lost}" if lost else ""))
    bad += bool(lost)
sys.exit(1 if bad else 0)
