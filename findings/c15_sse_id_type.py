"""Demonstration for C15-R2 against the real legacy SSE transport (not run by any check).

A request with the integer id 5 whose POST fails must be answered with a
synthesised error carrying the id 5 (same JSON type), as the HTTP transport does;
a stringified "5" never matches a waiter comparing with 5."""
import asyncio
import logging

import httpx

from chuk_mcp.transports.sse.transport import SSETransport
from chuk_mcp.transports.sse.parameters import SSEParameters

logging.disable(logging.CRITICAL)


async def main():
    def handler(request: httpx.Request) -> httpx.Response:
        if request.method == "GET":
            return httpx.Response(200, headers={"content-type": "text/event-stream"}, content=b"event: endpoint\ndata: /messages/?session_id=abc\n\n")
        return httpx.Response(500, content=b"boom")

    real = httpx.AsyncClient

    class Patched(real):
        def __init__(self, *a, **kw):
            kw["transport"] = httpx.MockTransport(handler)
            super().__init__(*a, **kw)

    httpx.AsyncClient = Patched
    try:
        t = SSETransport(SSEParameters(url="http://test", timeout=1.0))
        async with t:
            r, w = await t.get_streams()
            await t._send_message_via_http({"jsonrpc": "2.0", "id": 5, "method": "ping"})
            m = r.receive_nowait()
            return m.id
    finally:
        httpx.AsyncClient = real


got = asyncio.run(main())
print("synthesised error id:", repr(got))
print("RESULT:", "id keeps its JSON type" if got == 5 and isinstance(got, int) else "id was stringified (finding reproduces)")
