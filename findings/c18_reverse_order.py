"""Demonstration of known finding C18-R2 against the real code (not run by any check).

Two callers share one (read, write) pair; the server answers in reverse order.
Each waiter consumes the other's response and discards it, so both time out
although both responses were sent well within the deadline."""
import anyio
from chuk_mcp.protocol.messages.send_message import send_message
from chuk_mcp.protocol.messages.json_rpc_message import JSONRPCResponse


async def main():
    to_client_s, to_client_r = anyio.create_memory_object_stream(100)
    to_server_s, to_server_r = anyio.create_memory_object_stream(100)
    results = {}

    async def caller(i):
        try:
            results[i] = await send_message(to_client_r, to_server_s, "ping", message_id=f"id-{i}", timeout=2.0)
        except TimeoutError:
            results[i] = "TIMEOUT"

    async def server():
        reqs = [await to_server_r.receive(), await to_server_r.receive()]
        for r in reversed(reqs):
            await to_client_s.send(JSONRPCResponse(id=r.id, result={"echo": r.id}))

    async with anyio.create_task_group() as tg:
        tg.start_soon(caller, 1)
        tg.start_soon(caller, 2)
        tg.start_soon(server)
    print(results)
    assert "TIMEOUT" in results.values(), "finding no longer reproduces"
    print("REPRODUCED: a response sent within the deadline was lost")


anyio.run(main)
