"""Demonstration of the known C09 findings against the real code (not run by any check).

Each probe is evaluated twice, with Pydantic and with MCP_FORCE_FALLBACK=1; the
two backends must give different verdicts for the finding to reproduce."""
import os
import subprocess
import sys

PROBES = {
    "R1 Root.__post_init__ (root URIs must be file://)": "from chuk_mcp.protocol.messages.roots.send_messages import Root; Root(uri='http://example.com')",
}
# repaired by a fix: commit (fallback now enforces Field bounds); kept to show both backends agree now
REPAIRED = {
    "R2 Annotations.priority in [0,1]": "from chuk_mcp.protocol.types.content import Annotations; Annotations(priority=5)",
    "R2 ModelPreferences.costPriority in [0,1]": "from chuk_mcp.protocol.messages.sampling.send_messages import ModelPreferences; ModelPreferences(costPriority=7)",
    "R2 ModelPreferences.speedPriority in [0,1]": "from chuk_mcp.protocol.messages.sampling.send_messages import ModelPreferences; ModelPreferences(speedPriority=-1)",
    "R2 ModelPreferences.intelligencePriority in [0,1]": "from chuk_mcp.protocol.messages.sampling.send_messages import ModelPreferences; ModelPreferences(intelligencePriority=2)",
}


def verdict(code, fallback):
    env = dict(os.environ)
    env.pop("MCP_FORCE_FALLBACK", None)
    if fallback:
        env["MCP_FORCE_FALLBACK"] = "1"
    r = subprocess.run([sys.executable, "-c", code], env=env, capture_output=True, text=True)
    return "accepted" if r.returncode == 0 else "rejected"


bad = 0
for name, code in PROBES.items():
    a, b = verdict(code, False), verdict(code, True)
    print(f"{name}: pydantic={a} fallback={b}")
    if a == b:
        bad += 1
assert bad == 0, "a finding no longer reproduces"
print("REPRODUCED: the backends disagree on every open probe")
for name, code in REPAIRED.items():
    a, b = verdict(code, False), verdict(code, True)
    print(f"(repaired) {name}: pydantic={a} fallback={b}")
    assert a == b == "rejected"
