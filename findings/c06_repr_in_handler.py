"""Demonstration for C06-R4 against the real stdio writer (not run by any check).

A message that cannot be serialised (a dict nested deeper than the recursion
limit) must be dropped alone.  The writer's error handler logged
repr(message)[:200]; repr() of that object raises again *inside the handler*, the
exception leaves the loop and the writer task ends: later messages are lost."""
import asyncio
import logging
import sys

import anyio

from chuk_mcp.transports.stdio.stdio_client import StdioClient
from chuk_mcp.transports.stdio.parameters import StdioParameters

logging.disable(logging.CRITICAL)
CHILD = "import sys\nfor line in sys.stdin:\n    sys.stdout.write(line)\n    sys.stdout.flush()\n"


async def main():
    deep = cur = {}
    for _ in range(5000):
        cur["x"] = {}
        cur = cur["x"]
    c = StdioClient(StdioParameters(command=sys.executable, args=["-c", CHILD]))
    got = []
    async with c:
        r, w = c.get_streams()
        await w.send({"jsonrpc": "2.0", "method": "notifications/a"})
        await w.send(deep)
        await w.send({"jsonrpc": "2.0", "method": "notifications/b"})
        with anyio.move_on_after(3):
            while len(got) < 2:
                m = await r.receive()
                got.append(m.method)
    return got


got = anyio.run(main)
print("echoed back:", got)
print("RESULT:", "dropped alone" if got == ["notifications/a", "notifications/b"] else "later message lost (finding reproduces)")
sys.exit(0 if got == ["notifications/a", "notifications/b"] else 1)
