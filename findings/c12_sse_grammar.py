"""Demonstration for C12-R6 against the real legacy SSE transport (not run by any check).

A server that writes event-stream fields without the optional space after the
colon (`event:endpoint`, `data:/messages/...`) is conformant; the transport must
still learn its message endpoint from it."""
import asyncio
import logging

import httpx

from chuk_mcp.transports.sse.transport import SSETransport
from chuk_mcp.transports.sse.parameters import SSEParameters

logging.disable(logging.CRITICAL)
BODY = "event:endpoint\ndata:/messages/?session_id=abc\n\n"


async def main():
    def handler(request: httpx.Request) -> httpx.Response:
        return httpx.Response(200, headers={"content-type": "text/event-stream"}, content=BODY.encode())

    real = httpx.AsyncClient

    class Patched(real):
        def __init__(self, *a, **kw):
            kw["transport"] = httpx.MockTransport(handler)
            super().__init__(*a, **kw)

    httpx.AsyncClient = Patched
    try:
        t = SSETransport(SSEParameters(url="http://test", timeout=1.0))
        try:
            async with t:
                print("connected, message url:", t._message_url)
                return t._message_url
        except Exception as e:
            print("entering the context failed:", e)
            return None
    finally:
        httpx.AsyncClient = real


url = asyncio.run(main())
print("RESULT:", "endpoint learned" if url else "endpoint NOT learned (finding reproduces)")
