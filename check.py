#!/venv/bin/python
"""Entry point of every registered check:  check.py <PROPERTY-ID> [--tier quick|thorough]

Exit 0: every obligation discharged on /repo's current tree (listed known
        findings are printed as KNOWN-FINDING lines).
Exit 1: `VIOLATION property=<id> replay=<path>` — an obligation failed at a
        named construct that known_findings.json does not list.
Exit 2: `ANALYSIS-ERROR …` — the analysis cannot decide (anchor vanished,
        construct outside the interpreted fragment, tool missing).
"""
from __future__ import annotations

import argparse
import importlib
import json
import os
import sys
import time
import traceback

HERE = os.path.dirname(os.path.abspath(__file__))
sys.path.insert(0, HERE)

from sa.model import AnalysisError, Project  # noqa: E402
from sa import report as R  # noqa: E402


from sa.runner import run_property  # noqa: E402


def main(argv=None) -> int:
    ap = argparse.ArgumentParser()
    ap.add_argument("prop")
    ap.add_argument("--tier", default=os.environ.get("VERIF_TIER", "quick"))
    ap.add_argument("--src", default=os.environ.get("VERIF_SRC", "/repo/src"))
    ap.add_argument("--replay", default=None)
    ap.add_argument("--no-evidence", action="store_true")
    ap.add_argument("--list", action="store_true", help="print every obligation")
    a = ap.parse_args(argv)
    prop = a.prop.upper()
    tier = a.tier if a.tier in ("quick", "thorough") else "quick"
    t0 = time.time()
    project = None
    rep = R.Report(prop=prop, tier=tier)
    try:
        project = Project.from_dir(a.src)
        rep = run_property(prop, project, tier)
        if not rep.obligations:
            raise AnalysisError("no obligation matched any construct (vacuous run)")
        selftest_error = None
        if tier == "thorough":
            from sa import selftest

            selftest_error = selftest.run(prop, project, rep)
        known, new = R.classify(rep)
        if a.replay:
            with open(a.replay) as fh:
                want = json.load(fh)
            new = [o for o in new if o.rule == want.get("rule") and o.key == want.get("key")]
            print(f"REPLAY property={prop} rule={want.get('rule')} key={want.get('key')}: " + ("still fails" if new else "no longer fails"))
            for o in new:
                print(f"  {o.where}: {o.detail}")
            return 1 if new else 0
        wall = time.time() - t0
        if not a.no_evidence:
            R.write_evidence(rep, project, wall, known, new, error=selftest_error)
        if a.list:
            for o in rep.obligations:
                print(("ok   " if o.ok else "FAIL ") + f"{o.rule} {o.key} @ {o.where} {o.detail}")
        for o, k in known:
            print(f"KNOWN-FINDING: property={prop} {o.rule} {o.key} — {k.get('what', '')} [{o.where}]")
        if selftest_error:
            print(f"ANALYSIS-ERROR property={prop} self-test: {selftest_error}")
            return 2
        if new:
            for o in new:
                path = R.write_replay(rep, o, project)
                print(f"VIOLATION property={prop} replay={path}")
                print(f"  {o.where}: rule {o.rule} [{rep.rules.get(o.rule, '')}] instance {o.key}: {o.detail}")
            return 1
        n = len(rep.obligations)
        d = sum(1 for o in rep.obligations if o.ok)
        print(f"OK property={prop} tier={tier} obligations={d}/{n} known_findings={len(known)} functions={len(rep.functions)} wall={wall:.2f}s")
        return 0
    except AnalysisError as e:
        print(f"ANALYSIS-ERROR property={prop} {e}")
        _error_evidence(rep, project, t0, str(e), a)
        return 2
    except Exception as e:  # a crash of the checker is not a violation of the property
        traceback.print_exc()
        print(f"ANALYSIS-ERROR property={prop} checker crashed: {type(e).__name__}: {e}")
        _error_evidence(rep, project, t0, f"crash: {e}", a)
        return 2


def _error_evidence(rep, project, t0, msg, a):
    if a.no_evidence or project is None:
        return
    try:
        R.write_evidence(rep, project, time.time() - t0, [], [], error=msg)
    except Exception:
        pass


if __name__ == "__main__":
    code = main()
    sys.stdout.flush()
    os._exit(code)
