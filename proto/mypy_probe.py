import os, sys, time
t=time.time()
os.chdir('/repo')
from mypy import build
from mypy.options import Options
from mypy.find_sources import create_source_list
from mypy.nodes import CallExpr, MemberExpr, NameExpr
opts = Options()
opts.preserve_asts = True
opts.export_types = True
opts.incremental = False
opts.cache_dir = os.devnull
opts.check_untyped_defs = True
opts.ignore_missing_imports = True
opts.python_version = (3, 12)
opts.mypy_path = ['src']
srcs = create_source_list(['src/chuk_mcp'], opts)
res = build.build(srcs, opts)
print('built', time.time()-t, 'errors', len(res.errors))
types = res.types
# find model_dump calls and receiver types
n=0
def walk(node, seen):
    if id(node) in seen: return
    seen.add(id(node))
    yield node
    for name in dir(type(node)):
        if name.startswith('_') or name in ('node','info','names','defn','type','unanalyzed_type','original_def','impl','analyzed','partial_fallback','type_guard','type_is'): continue
        try: v = getattr(node, name)
        except Exception: continue
        from mypy.nodes import Node
        if isinstance(v, Node):
            yield from walk(v, seen)
        elif isinstance(v, (list, tuple)):
            for x in v:
                if isinstance(x, Node): yield from walk(x, seen)
                elif isinstance(x, (list,tuple)):
                    for y in x:
                        if isinstance(y, Node): yield from walk(y, seen)
for modname, f in res.files.items():
    if not modname.startswith('chuk_mcp'): continue
    for node in walk(f, set()):
        if isinstance(node, CallExpr) and isinstance(node.callee, MemberExpr) and node.callee.name in ('model_dump','model_dump_json'):
            rt = types.get(node.callee.expr)
            print(modname, node.line, node.callee.name, rt, node.arg_names)
            n+=1
        if isinstance(node, CallExpr) and isinstance(node.callee, NameExpr) and node.callee.name=='stdio_client':
            print('STDIO', modname, node.line, [str(types.get(a)) for a in node.args])
print(n, time.time()-t)
sys.stdout.flush()
os._exit(0)
