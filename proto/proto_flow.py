"""Throwaway prototype: syntax-directed abstract interpretation with state sets.
Not part of /verif. Validates the design of `cfg`/`paths` on real functions."""
import ast, sys, itertools
from dataclasses import dataclass, field

ANY_EXC = "Exception*"      # some subclass of Exception raised by an opaque call
CANCEL = "Cancelled"        # BaseException family


@dataclass
class Out:
    normal: set = field(default_factory=set)
    brk: set = field(default_factory=set)
    cont: set = field(default_factory=set)
    ret: set = field(default_factory=set)      # (state, return-node)
    exc: set = field(default_factory=set)      # (state, tag, node)

    def absorb(self, o, normal=False):
        if normal:
            self.normal |= o.normal
        self.brk |= o.brk; self.cont |= o.cont; self.ret |= o.ret; self.exc |= o.exc


class Analysis:
    """Override the hooks.  States must be hashable."""
    loop_unroll = 1

    def simple(self, state, stmt):            # -> iterable of states
        return [state]

    def cond(self, state, test, pol):          # -> iterable of states (empty = infeasible)
        return [state]

    def raises(self, stmt):                    # -> set of exception tags this simple stmt/expr may raise
        return set()

    def on_return(self, state, node):
        return state

    # ------------------------------------------------------------------
    def block(self, stmts, states):
        out = Out(normal=set(states))
        for s in stmts:
            if not out.normal:
                break
            o = self.stmt(s, out.normal)
            out.normal = set()
            out.absorb(o, normal=True)
        return out

    def _exc_of(self, node, states, out):
        for tag in self.raises(node):
            for st in states:
                out.exc.add((st, tag, node))

    def stmt(self, s, states):
        out = Out()
        if isinstance(s, (ast.FunctionDef, ast.AsyncFunctionDef, ast.ClassDef, ast.Import, ast.ImportFrom, ast.Pass, ast.Global, ast.Nonlocal)):
            out.normal = set(states); return out
        if isinstance(s, ast.If):
            self._exc_of(s.test, states, out)
            t = set(itertools.chain.from_iterable(self.cond(st, s.test, True) for st in states))
            f = set(itertools.chain.from_iterable(self.cond(st, s.test, False) for st in states))
            out.absorb(self.block(s.body, t), True)
            out.absorb(self.block(s.orelse, f), True) if s.orelse else out.normal.update(f)
            return out
        if isinstance(s, (ast.While, ast.For, ast.AsyncFor)):
            cur = set(states); exits = set()
            for _ in range(self.loop_unroll + 1):
                if isinstance(s, ast.While):
                    self._exc_of(s.test, cur, out)
                    enter = set(itertools.chain.from_iterable(self.cond(st, s.test, True) for st in cur))
                    leave = set(itertools.chain.from_iterable(self.cond(st, s.test, False) for st in cur))
                    if isinstance(s.test, ast.Constant) and s.test.value is True:
                        leave = set()
                else:
                    self._exc_of(s.iter, cur, out)
                    enter = set(itertools.chain.from_iterable(self.simple(st, ast.Assign(targets=[s.target], value=s.iter, lineno=s.lineno)) for st in cur))
                    leave = set(cur)
                exits |= leave
                o = self.block(s.body, enter)
                out.ret |= o.ret; out.exc |= o.exc
                exits |= o.brk
                cur = o.normal | o.cont
                if not cur:
                    break
            # states still looping after the bound are dropped (bounded unroll)
            if s.orelse:
                out.absorb(self.block(s.orelse, exits), True)
            else:
                out.normal |= exits
            return out
        if isinstance(s, (ast.With, ast.AsyncWith)):
            for it in s.items:
                self._exc_of(it.context_expr, states, out)
            cur = set(itertools.chain.from_iterable(self.simple(st, s) for st in states))
            o = self.block(s.body, cur)
            o = self.with_exit(s, o)
            out.absorb(o, True)
            return out
        if isinstance(s, ast.Try):
            self.try_stack = getattr(self, "try_stack", []) + [s]
            body = self.block(s.body, states)
            self.try_stack = self.try_stack[:-1]
            res = Out()
            res.brk |= body.brk; res.cont |= body.cont; res.ret |= body.ret
            # else
            if s.orelse:
                e = self.block(s.orelse, body.normal); res.absorb(e, True)
            else:
                res.normal |= body.normal
            # handlers
            for (st, tag, node) in body.exc:
                caught_definitely = False
                for h in s.handlers:
                    m = self.handler_match(h, tag)
                    if m:
                        hs = set(self.simple(st, h))
                        ho = self.block(h.body, hs)
                        ho = self.rebind_reraise(ho, st, tag, node)
                        res.absorb(ho, True)
                        if m == "yes":
                            caught_definitely = True
                            break
                if not caught_definitely:
                    res.exc.add((st, tag, node))
            if s.finalbody:
                fin = Out()
                for kind in ("normal", "brk", "cont"):
                    fo = self.block(s.finalbody, getattr(res, kind))
                    getattr(fin, kind).update(fo.normal); fin.ret |= fo.ret; fin.exc |= fo.exc; fin.brk |= fo.brk if kind != "brk" else set()
                for (st, n) in res.ret:
                    fo = self.block(s.finalbody, {st}); fin.ret |= {(x, n) for x in fo.normal}; fin.exc |= fo.exc; fin.ret |= fo.ret
                for (st, tag, n) in res.exc:
                    fo = self.block(s.finalbody, {st}); fin.exc |= {(x, tag, n) for x in fo.normal}; fin.exc |= fo.exc; fin.ret |= fo.ret
                res = fin
            return res
        if isinstance(s, ast.Return):
            if s.value is not None:
                self._exc_of(s.value, states, out)
            for st in states:
                for st2 in self.simple(st, s):
                    out.ret.add((self.on_return(st2, s), s))
            return out
        if isinstance(s, ast.Raise):
            tag = self.raise_tag(s)
            for st in states:
                for st2 in self.simple(st, s):
                    out.exc.add((st2, tag, s))
            return out
        if isinstance(s, ast.Break):
            out.brk = set(states); return out
        if isinstance(s, ast.Continue):
            out.cont = set(states); return out
        # simple statement
        self._exc_of(s, states, out)
        out.normal = set(itertools.chain.from_iterable(self.simple(st, s) for st in states))
        return out

    def with_exit(self, s, o):
        return o

    def raise_tag(self, s):
        if s.exc is None:
            return "reraise"
        e = s.exc.func if isinstance(s.exc, ast.Call) else s.exc
        return ast.unparse(e)

    def rebind_reraise(self, ho, st, tag, node):
        new = set()
        for (s2, t2, n2) in ho.exc:
            new.add((s2, tag if t2 == "reraise" else t2, n2))
        ho.exc = new
        return ho

    def handler_match(self, h, tag):
        """'yes' (definitely catches), 'maybe', or '' (does not)."""
        if h.type is None:
            return "yes"
        names = [ast.unparse(e) for e in (h.type.elts if isinstance(h.type, ast.Tuple) else [h.type])]
        if tag == CANCEL:
            return "yes" if any(n in ("BaseException", "asyncio.CancelledError", "CancelledError") for n in names) else ""
        if any(n in ("Exception", "BaseException") for n in names):
            return "yes"
        if tag == ANY_EXC:
            return "maybe"
        return "yes" if tag in names else ""


# ---------------------------------------------------------------------------
def find_func(tree, name):
    for n in ast.walk(tree):
        if isinstance(n, (ast.FunctionDef, ast.AsyncFunctionDef)) and n.name == name:
            return n
    raise KeyError(name)


def norm_lit(test, pol):
    """Normalise a branch literal to text with polarity folded in."""
    if isinstance(test, ast.UnaryOp) and isinstance(test.op, ast.Not):
        return norm_lit(test.operand, not pol)
    if isinstance(test, ast.Compare) and len(test.ops) == 1:
        op = test.ops[0]
        flip = {ast.Eq: ast.NotEq, ast.NotEq: ast.Eq, ast.In: ast.NotIn, ast.NotIn: ast.In, ast.Is: ast.IsNot, ast.IsNot: ast.Is,
                ast.Lt: ast.GtE, ast.GtE: ast.Lt, ast.Gt: ast.LtE, ast.LtE: ast.Gt}
        if not pol:
            test = ast.Compare(left=test.left, ops=[flip[type(op)]()], comparators=test.comparators)
        return ast.unparse(test)
    return ("" if pol else "not ") + ast.unparse(test)


class Literals(Analysis):
    """state = frozenset of normalised literals seen since the last `receive()`;
    local variable substitution: name -> defining expr text (single assignment)."""

    def __init__(self, env=None):
        self.env = {}

    def subst(self, node):
        class S(ast.NodeTransformer):
            def visit_Name(s, n):
                if isinstance(n.ctx, ast.Load) and n.id in self.env:
                    return self.env[n.id]
                return n
        import copy
        return S().visit(copy.deepcopy(node))

    def simple(self, state, stmt):
        if isinstance(stmt, ast.Assign) and len(stmt.targets) == 1 and isinstance(stmt.targets[0], ast.Name):
            txt = ast.unparse(stmt.value)
            if "receive()" in txt:
                return [frozenset(["<received>"])]
            self.env[stmt.targets[0].id] = self.subst(stmt.value)
        return [state]

    def cond(self, state, test, pol):
        if isinstance(test, ast.BoolOp):
            if isinstance(test.op, ast.And) and pol:
                st = state
                for v in test.values:
                    st = frozenset(st | {norm_lit(self.subst(v), True)})
                return [st]
            if isinstance(test.op, ast.Or) and not pol:
                st = state
                for v in test.values:
                    st = frozenset(st | {norm_lit(self.subst(v), False)})
                return [st]
            return [state]     # disjunctive knowledge is dropped (sound for must-literals)
        return [frozenset(state | {norm_lit(self.subst(test), pol)})]


if __name__ == "__main__":
    src = open(sys.argv[1]).read()
    fn = find_func(ast.parse(src), sys.argv[2])
    a = Literals()
    o = a.block(fn.body, {frozenset()})
    print("returns:")
    for st, node in sorted(o.ret, key=lambda x: x[1].lineno):
        print("  line", node.lineno, ast.unparse(node)[:60], "\n     literals:", sorted(st))
    print("escaping exceptions:", sorted({(t, n.lineno) for _, t, n in o.exc}))
    print("falls off end:", len(o.normal))
