import time, sys
time.sleep(30)
