import sys, time, json
out = sys.stdout.buffer
line1 = (json.dumps({"jsonrpc":"2.0","method":"notifications/message","params":{"data":"héllo"}}, ensure_ascii=False)+"\n").encode()
i = line1.index("é".encode())+1  # split inside the 2-byte char
out.write(line1[:i]); out.flush(); time.sleep(0.3)
out.write(line1[i:]); out.flush(); time.sleep(0.1)
out.write((json.dumps({"jsonrpc":"2.0","method":"notifications/message","params":{"data":"second"}})+"\n").encode()); out.flush()
time.sleep(1)
