"""Throwaway: C03 with flow-sensitive env in the state; terms are def-sites, only trivial aliases are inlined."""
import ast, sys, copy
sys.path.insert(0, "/tmp/scratch")
from proto_flow import Analysis, find_func, norm_lit, ANY_EXC

def trivial(v):
    if isinstance(v, (ast.Name, ast.Constant)): return True
    if isinstance(v, ast.Attribute): return trivial(v.value)
    if isinstance(v, ast.Subscript): return trivial(v.value) and isinstance(v.slice, ast.Constant)
    if isinstance(v, ast.Compare): return trivial(v.left) and all(trivial(c) for c in v.comparators)
    if isinstance(v, ast.Call) and isinstance(v.func, ast.Name) and v.func.id in ("getattr", "str"): return all(trivial(a) for a in v.args)
    return False

class Env(Analysis):
    """state = (lits, env, n) ; env = frozenset of (var, text)"""
    def subst(self, node, env):
        d = dict(env)
        class S(ast.NodeTransformer):
            def visit_Name(s, n):
                if isinstance(n.ctx, ast.Load) and n.id in d:
                    return ast.parse(d[n.id], mode="eval").body if not d[n.id].startswith("@") else ast.Name(id=d[n.id][1:], ctx=ast.Load())
                return n
        return S().visit(copy.deepcopy(node))
    def simple(self, state, stmt):
        lits, env, n = state
        if isinstance(stmt, ast.ExceptHandler): return [state]
        for c in ast.walk(stmt):
            if isinstance(c, ast.Call) and ast.unparse(c.func).endswith("send_initialized_notification"):
                self.calls.append((c.lineno, lits)); n += 1
        if isinstance(stmt, ast.Assign) and len(stmt.targets) == 1 and isinstance(stmt.targets[0], ast.Name):
            var = stmt.targets[0].id
            d = dict(env)
            if trivial(stmt.value):
                d[var] = ast.unparse(self.subst(stmt.value, env))
            else:
                d[var] = f"@{var}_L{stmt.lineno}"
            env = frozenset(d.items())
        return [(lits, env, n)]
    def cond(self, state, test, pol):
        lits, env, n = state
        vals = []
        if isinstance(test, ast.BoolOp) and ((isinstance(test.op, ast.And) and pol) or (isinstance(test.op, ast.Or) and not pol)):
            vals = test.values
        elif not isinstance(test, ast.BoolOp):
            vals = [test]
        for v in vals:
            lits = frozenset(lits | {norm_lit(self.subst(v, env), pol)})
        return [(lits, env, n)]
    def raises(self, node):
        if isinstance(node, (ast.With, ast.AsyncWith, ast.ExceptHandler)): return set()
        for c in ast.walk(node):
            if isinstance(c, ast.Call) and not ast.unparse(c.func).startswith(("logging.", "str", "hasattr")):
                return {ANY_EXC}
        return set()

fn = find_func(ast.parse(open(sys.argv[1]).read()), "send_initialize")
a = Env(); a.calls = []
o = a.block(fn.body, {(frozenset(), frozenset(), 0)})
print("return states:", len(o.ret))
for (lits, env, n), node in sorted(o.ret, key=lambda x: sorted(x[0][0])):
    print(" RETURN notifications:", n, "| version literals:", sorted(l for l in lits if "ersion" in l))
print("raise exits:", sorted({(tag, n) for (l, e, n), tag, node in o.exc}))
