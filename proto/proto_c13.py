"""Throwaway: C13-R1 decision cascade extraction + region evaluation."""
import ast, sys, itertools
sys.path.insert(0, "/tmp/scratch")
from proto_flow import Analysis, find_func

src = open(sys.argv[1]).read()
fn = find_func(ast.parse(src), "supports_batching")

# 1. which locals are int(parts[i]) ?
ints = {}
parts_var = None
for n in ast.walk(fn):
    if isinstance(n, ast.Assign) and len(n.targets) == 1 and isinstance(n.targets[0], ast.Name):
        v = n.value
        if isinstance(v, ast.Call) and isinstance(v.func, ast.Attribute) and v.func.attr == "split" and v.args and isinstance(v.args[0], ast.Constant):
            parts_var = (n.targets[0].id, v.args[0].value, ast.unparse(v.func.value))
        if isinstance(v, ast.Call) and isinstance(v.func, ast.Name) and v.func.id == "int" and isinstance(v.args[0], ast.Subscript):
            sub = v.args[0]
            if isinstance(sub.slice, ast.Constant):
                ints[n.targets[0].id] = (ast.unparse(sub.value), sub.slice.value)
print("split:", parts_var, "ints:", ints)
order = [k for k, v in sorted(ints.items(), key=lambda kv: kv[1][1])]
assert [ints[k][1] for k in order] == [0, 1, 2], "indices must be 0,1,2"
Y, M, D = order

# 2. constants compared against each var
consts = {v: set() for v in order}
for n in ast.walk(fn):
    if isinstance(n, ast.Compare) and isinstance(n.left, ast.Name) and n.left.id in consts:
        for c in n.comparators:
            if isinstance(c, ast.Constant):
                consts[n.left.id].add(c.value)
print("constants:", consts)

# 3. abstract evaluation: representatives per region
def reps(cs):
    cs = sorted(cs)
    out = []
    for i, c in enumerate(cs):
        out += [c - 1, c, c + 1]
    return sorted(set(out))

class Eval(Analysis):
    """state = env tuple; only comparisons of the three ints are evaluated, everything else
    about the well-formed domain is fixed: version non-empty, 3 parts, int() succeeds."""
    def __init__(self, env): self.env = env
    def cond(self, state, test, pol):
        v = self.ev(test)
        if v is None: raise SystemExit(f"ANALYSIS-ERROR: unsupported condition {ast.unparse(test)}")
        return [state] if v == pol else []
    def ev(self, e):
        if isinstance(e, ast.UnaryOp) and isinstance(e.op, ast.Not):
            v = self.ev(e.operand); return None if v is None else (not v)
        if isinstance(e, ast.BoolOp):
            vs = [self.ev(x) for x in e.values]
            if None in vs: return None
            return all(vs) if isinstance(e.op, ast.And) else any(vs)
        if isinstance(e, ast.Name) and e.id == self.env["__param"]:
            return True                      # well-formed, non-empty string
        if isinstance(e, ast.Compare) and len(e.ops) == 1:
            l, r = self.val(e.left), self.val(e.comparators[0])
            if l is None or r is None: return None
            op = type(e.ops[0])
            return {ast.Gt: l > r, ast.GtE: l >= r, ast.Lt: l < r, ast.LtE: l <= r, ast.Eq: l == r, ast.NotEq: l != r}[op]
        return None
    def val(self, e):
        if isinstance(e, ast.Constant): return e.value
        if isinstance(e, ast.Name) and e.id in self.env: return self.env[e.id]
        if isinstance(e, ast.Tuple):
            vs = [self.val(x) for x in e.elts]; return None if None in vs else tuple(vs)
        if isinstance(e, ast.Call) and isinstance(e.func, ast.Name) and e.func.id == "len" and ast.unparse(e.args[0]) == self.env["__parts"]:
            return 3
        return None

bad = 0; n = 0
param = fn.args.args[0].arg
for y, m, d in itertools.product(reps(consts[Y] | {2025}), reps(consts[M] | {6}), reps(consts[D] | {18})):
    a = Eval({Y: y, M: m, D: d, "__param": param, "__parts": parts_var[0]})
    o = a.block(fn.body, {0})
    rets = {ast.literal_eval(node.value) for _, node in o.ret}
    assert len(rets) == 1, (y, m, d, rets)
    got = rets.pop(); want = (y, m, d) < (2025, 6, 18)
    n += 1
    if got != want:
        bad += 1; print("MISMATCH", (y, m, d), "got", got, "want", want)
print(f"regions evaluated: {n}, mismatches: {bad}")
