import anyio, sys, os, json
import chuk_mcp; print("SRC", chuk_mcp.__file__)
from chuk_mcp.protocol.messages.send_message import send_message
from chuk_mcp.protocol.messages.json_rpc_message import parse_message, create_notification
from chuk_mcp.server.server import MCPServer
async def c01():
    ws, wr = anyio.create_memory_object_stream(10)
    rs_s, rs_r = anyio.create_memory_object_stream(10)
    await rs_s.send(parse_message({"jsonrpc":"2.0","id":"abc","method":"roots/list"}))
    await rs_s.send(parse_message({"jsonrpc":"2.0","id":"abc","result":{"ok":1}}))
    print("C01:", await send_message(rs_r, ws, "tools/list", message_id="abc", timeout=2))
anyio.run(c01)
s = MCPServer("x")
async def c08():
    for m in [create_notification("notifications/cancelled", {"requestId": 1}), create_notification("tools/call", {"name":"x"}), create_notification("ping"), parse_message({"jsonrpc":"2.0","method":"initialize","id":1,"params":{"protocolVersion":"1999-01-01"}}), parse_message({"jsonrpc":"2.0","method":"initialize","id":2,"params":{"protocolVersion":"2024-11-05"}}), parse_message({"jsonrpc":"2.0","method":"initialize","id":4,"params":{"protocolVersion":["x"]}}), parse_message({"jsonrpc":"2.0","method":"nope","id":3})]:
        try:
            r, sid = await s.protocol_handler.handle_message(m)
            d = r.model_dump(exclude_none=True) if r else None
            if d and "result" in d and "protocolVersion" in d["result"]:
                d = ("answered", d["result"]["protocolVersion"], "session", s.protocol_handler.session_manager.get_session(sid).protocol_version)
            print("C08/C04:", getattr(m,'method',None), getattr(m,'id',None), "->", d)
        except Exception as e:
            print("C08 RAISED", type(e).__name__)
anyio.run(c08)
from chuk_mcp.transports.stdio.stdio_client import stdio_client
from chuk_mcp.transports.stdio.parameters import StdioParameters
async def c05():
    got=[]
    async with stdio_client(StdioParameters(command=sys.executable, args=["/tmp/scratch/child_split.py"])) as (r, w):
        with anyio.move_on_after(1.5):
            while True:
                got.append((await r.receive()).params)
    print("C05 delivered:", got)
anyio.run(c05)
from chuk_mcp.protocol.types.tools import ToolResult, StructuredContent, tool_result_to_dict
print("C10:", tool_result_to_dict(ToolResult(structuredContent=[StructuredContent(data={"a":1}, schema_={"type":"object"})])))
from chuk_mcp.protocol.messages.completions.send_messages import CompletionResult
try: CompletionResult(values=["a"]*101); print("C09: accepted")
except Exception as e: print("C09: rejected under pydantic")
from chuk_mcp.transports.sse import sse_client, SSEParameters
async def c12():
    try:
        async with sse_client(SSEParameters(url="http://127.0.0.1:9", timeout=3.0)) as (r, w):
            print("C12: ENTERED dead")
    except Exception as e:
        print("C12: raised", type(e).__name__, e)
anyio.run(c12)
