"""Throwaway: model table + C09-R3 union shadowing + C09-R1 hooks + C10 alias closure."""
import ast, sys, pathlib, re

root = pathlib.Path(sys.argv[1])  # .../src
mods = {}
for p in root.rglob("*.py"):
    name = ".".join(p.relative_to(root).with_suffix("").parts)
    if name.endswith(".__init__"): name = name[: -len(".__init__")]
    mods[name] = ast.parse(p.read_text())

def resolve_import(modname, node, is_pkg):
    """yield (local_name, target_module, target_name)"""
    if isinstance(node, ast.ImportFrom):
        base = modname.split(".")
        if node.level:
            base = base[: len(base) - node.level + (1 if is_pkg else 0)]
            target = ".".join(base + ([node.module] if node.module else []))
        else:
            target = node.module
        for a in node.names:
            yield a.asname or a.name, target, a.name

classes = {}      # qualname -> dict
aliases = {}      # module -> {name: annotation ast}
imports = {}      # module -> {local: (module, name)}
for m, tree in mods.items():
    is_pkg = (root / pathlib.Path(*m.split(".")) / "__init__.py").exists()
    imports[m] = {}; aliases[m] = {}
    for n in ast.walk(tree):
        if isinstance(n, ast.ImportFrom):
            for loc, tm, tn in resolve_import(m, n, is_pkg):
                imports[m][loc] = (tm, tn)
    for n in tree.body:
        if isinstance(n, ast.Assign) and len(n.targets) == 1 and isinstance(n.targets[0], ast.Name) and isinstance(n.value, ast.Subscript):
            aliases[m][n.targets[0].id] = n.value
        if isinstance(n, ast.ClassDef):
            classes[f"{m}.{n.name}"] = {"mod": m, "node": n, "bases": [ast.unparse(b) for b in n.bases]}

def lookup(m, name, depth=0):
    """resolve a simple name used in module m to a class qualname or alias ast"""
    if f"{m}.{name}" in classes: return ("class", f"{m}.{name}")
    if name in aliases.get(m, {}): return ("alias", (m, aliases[m][name]))
    if name in imports.get(m, {}) and depth < 6:
        tm, tn = imports[m][name]
        if tm in mods: return lookup(tm, tn, depth + 1)
    return (None, None)

def is_model(q, seen=()):
    if q in seen: return False
    c = classes[q]
    for b in c["bases"]:
        if b.split(".")[-1] == "McpPydanticBase": return True
        k, v = lookup(c["mod"], b.split(".")[-1])
        if k == "class" and is_model(v, seen + (q,)): return True
    return False

models = {q: c for q, c in classes.items() if is_model(q)}
print("model classes:", len(models))

def fields(q):
    out = {}
    c = models[q]
    for b in c["bases"]:
        k, v = lookup(c["mod"], b.split(".")[-1])
        if k == "class" and v in models: out.update(fields(v))
    for n in c["node"].body:
        if isinstance(n, ast.AnnAssign) and isinstance(n.target, ast.Name) and n.target.id != "model_config":
            default = n.value
            alias = None; required = default is None; constraints = []
            if isinstance(default, ast.Call) and ast.unparse(default.func).endswith("Field"):
                if default.args and isinstance(default.args[0], ast.Constant) and default.args[0].value is Ellipsis: required = True
                elif not default.args and not any(k.arg in ("default", "default_factory") for k in default.keywords): required = True
                for k in default.keywords:
                    if k.arg == "alias": alias = k.value.value
                    if k.arg in ("ge", "le", "gt", "lt", "min_length", "max_length", "pattern"): constraints.append(k.arg)
            ann = ast.unparse(n.annotation)
            if ann.startswith("Optional["): required = False if default is not None else required
            out[n.target.id] = dict(ann=n.annotation, required=required, alias=alias, constraints=constraints)
    return out

def expand(m, ann, depth=0):
    """list of union members as (kind, value) after expanding aliases; only top-level Union/Optional"""
    if isinstance(ann, ast.Name):
        k, v = lookup(m, ann.id)
        if k == "alias" and depth < 5: return expand(v[0], v[1], depth + 1)
        if k == "class": return [("class", v)]
        return [("other", ann.id)]
    if isinstance(ann, ast.Subscript) and ast.unparse(ann.value) in ("Union", "Optional", "typing.Union", "typing.Optional"):
        elts = ann.slice.elts if isinstance(ann.slice, ast.Tuple) else [ann.slice]
        out = []
        for e in elts: out += expand(m, e, depth + 1)
        return out
    if isinstance(ann, ast.Subscript) and ast.unparse(ann.value) in ("List", "list", "Sequence"):
        return expand(m, ann.slice, depth + 1)
    return [("other", ast.unparse(ann))]

def literal_tag(q, name):
    f = fields(q).get(name)
    if f and ast.unparse(f["ann"]).startswith("Literal["): return ast.unparse(f["ann"])
    return None

# does the fallback validator check Literals?
base = mods["chuk_mcp.protocol.mcp_pydantic_base"]
dv = [n for n in ast.walk(base) if isinstance(n, ast.FunctionDef) and n.name == "_deep_validate"][0]
checks_literal = any(isinstance(n, ast.Compare) and "Literal" in ast.unparse(n) and "origin" in ast.unparse(n) for n in ast.walk(dv))
print("fallback validator has a Literal case:", checks_literal)

findings = []
nunions = 0
for q in models:
    for fname, f in fields(q).items():
        mem = [v for k, v in expand(models[q]["mod"], f["ann"]) if k == "class" and v in models]
        if len(mem) < 2: continue
        nunions += 1
        for i, A in enumerate(mem):
            for B in mem[i + 1:]:
                fa, fb = fields(A), fields(B)
                reqA = {n for n, x in fa.items() if x["required"]}
                reqB = {n for n, x in fb.items() if x["required"]}
                if not reqA <= set(fb):          # a minimal-or-full B object lacks something A requires
                    continue
                if not reqA <= reqB:             # B objects may omit it
                    continue
                # tags
                tag_conflict = any(literal_tag(A, n) and literal_tag(B, n) and literal_tag(A, n) != literal_tag(B, n) for n in fa)
                if tag_conflict and checks_literal: continue
                findings.append((q.split(".")[-1] + "." + fname, A.split(".")[-1], B.split(".")[-1]))
print("union fields:", nunions)
for f in sorted(set(findings)): print("  SHADOW", f)

# hooks
for q in sorted(models):
    for n in models[q]["node"].body:
        if isinstance(n, ast.FunctionDef) and n.name in ("__post_init__",) and any(isinstance(x, ast.Raise) for x in ast.walk(n)):
            print("  HOOK fallback-only:", q.split("chuk_mcp.")[-1], n.name)
for q in sorted(models):
    for fname, f in fields(q).items():
        if f["constraints"]: print("  CONSTRAINT pydantic-only:", q.split(".")[-1], fname, f["constraints"])
al = sorted((q.split(".")[-1], n, f["alias"]) for q in models for n, f in fields(q).items() if f["alias"])
print("aliases:", len(al), al)
