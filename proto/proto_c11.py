"""Throwaway: C11-R1 terminal accounting on StreamableHTTPTransport._send_message_internal."""
import ast, sys
sys.path.insert(0, "/tmp/scratch")
from proto_flow import Analysis, find_func, norm_lit, ANY_EXC

def cap(n): return min(n, 2)

class Acc(Analysis):
    """state = (deliver, synth, maybe_nothing, posted, lits) ; lits = frozenset of literals about message_id/status"""
    def __init__(self):
        self.dicts = {}        # local name -> dict display
        self.exits = []
    def classify_arg(self, arg):
        if isinstance(arg, ast.Name) and arg.id in self.dicts:
            d = self.dicts[arg.id]
            keys = {k.value for k in d.keys if isinstance(k, ast.Constant)}
            if "error" in keys or "result" in keys:
                idv = d.values[[k.value for k in d.keys].index("id")]
                return ("synth", ast.unparse(idv))
        return ("deliver", None)
    def simple(self, state, stmt):
        dl, sy, mn, posted, lits = state
        if isinstance(stmt, ast.Assign) and len(stmt.targets) == 1 and isinstance(stmt.targets[0], ast.Name) and isinstance(stmt.value, ast.Dict):
            self.dicts[stmt.targets[0].id] = stmt.value
        for c in ast.walk(stmt) if not isinstance(stmt, (ast.With, ast.AsyncWith, ast.ExceptHandler)) else []:
            if isinstance(c, ast.Call) and isinstance(c.func, ast.Attribute):
                if c.func.attr == "post": posted = True
                if c.func.attr == "_route_response":
                    kind, idt = self.classify_arg(c.args[0])
                    if kind == "synth": sy = cap(sy + 1)
                    else: dl = cap(dl + 1)
                if c.func.attr in ("_process_sse_response", "_process_sse_text"):
                    mn = True
        return [(dl, sy, mn, posted, lits)]
    def cond(self, state, test, pol):
        dl, sy, mn, posted, lits = state
        t = ast.unparse(test)
        if "message_id" in t or "status_code" in t or "content_type" in t or "response_text" in t:
            lits = frozenset(lits | {norm_lit(test, pol)})
        return [(dl, sy, mn, posted, lits)]
    def raises(self, node):
        if isinstance(node, (ast.With, ast.AsyncWith, ast.ExceptHandler)): return set()
        for c in ast.walk(node):
            if isinstance(c, ast.Call):
                f = c.func
                if ast.unparse(f).startswith(("logger.", "logging.", "isinstance", "hasattr", "str", "dict", "traceback.")): continue
                if isinstance(c, ast.Call) and isinstance(c.func, ast.Attribute) and c.func.attr in ("get", "items", "startswith", "lower", "_route_response", "_process_sse_text", "_process_sse_response"): continue  # summarised: contained / total
                return {ANY_EXC}
        return set()

src = open(sys.argv[1]).read()
fn = find_func(ast.parse(src), "_send_message_internal")
a = Acc()
o = a.block(fn.body, {(0, 0, False, False, frozenset())})
print("return states:", len(o.ret), "fall-off states:", len(o.normal), "escaping exc states:", len(o.exc))
seen = set()
def report(kind, st, node):
    dl, sy, mn, posted, lits = st
    if not posted: return
    notif = any(l in ("not message_id",) for l in lits)
    ok = (dl + sy >= 1) and not (mn and dl + sy == 0)
    if notif: ok = True
    key = (kind, getattr(node, "lineno", 0), dl, sy, mn, ok)
    if key in seen: return
    seen.add(key)
    if not ok or sy > 1:
        print(f"  FINDING exit={kind}@{getattr(node,'lineno',0)} deliver={dl} synth={sy} maybe_nothing={mn} lits={sorted(lits)}")
for st, node in o.ret: report("return", st, node)
for st in o.normal: report("falloff", st, fn)
for st, tag, node in o.exc: report("raise:" + tag, st, node)
print("distinct exit classes:", len(seen))
