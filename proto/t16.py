import anyio, sys, os, time, subprocess
from chuk_mcp.transports.stdio.stdio_client import stdio_client
from chuk_mcp.transports.stdio.parameters import StdioParameters
CH = "/tmp/scratch/child_" + "sleep.py"
def alive():
    out = subprocess.run(["pgrep", "-xf", f"{sys.executable} {CH}"], capture_output=True, text=True).stdout.split()
    return out
for p in alive(): os.kill(int(p), 9)
async def c16():
    t=time.time()
    with anyio.move_on_after(0.5):
        async with stdio_client(StdioParameters(command=sys.executable, args=[CH])) as (r,w):
            await anyio.sleep(10)
    await anyio.sleep(0.2)
    print("C16 wrapper exit took %.2fs"%(time.time()-t), "children alive:", alive())
anyio.run(c16)
for p in alive(): os.kill(int(p), 9)
