"""Throwaway: C03 R2/R3 on send_initialize."""
import ast, sys
sys.path.insert(0, "/tmp/scratch")
from proto_flow import Literals, find_func, ANY_EXC

class C03(Literals):
    """state = (literals, n_notify)"""
    def __init__(self): super().__init__(); self.calls = []
    def simple(self, state, stmt):
        lits, n = state
        if isinstance(stmt, ast.ExceptHandler): return [state]
        for c in ast.walk(stmt):
            if isinstance(c, ast.Call) and ast.unparse(c.func).endswith("send_initialized_notification"):
                self.calls.append((c.lineno, lits)); n += 1
        out = super().simple(lits, stmt)
        return [(o, n) for o in out]
    def cond(self, state, test, pol):
        lits, n = state
        return [(o, n) for o in super().cond(lits, test, pol)]
    def raises(self, node):
        if isinstance(node, (ast.With, ast.AsyncWith, ast.ExceptHandler)): return set()
        for c in ast.walk(node):
            if isinstance(c, ast.Call) and not ast.unparse(c.func).startswith(("logging.", "str", "hasattr")):
                return {ANY_EXC}
        return set()

fn = find_func(ast.parse(open(sys.argv[1]).read()), "send_initialize")
a = C03(); o = a.block(fn.body, {(frozenset(), 0)})
acc = lambda lits: any(("== " in l and "protocolVersion" in l) or (" in supported_versions" in l and "protocolVersion" in l and " not in " not in l) for l in lits)
print("notification call sites reached:", len(a.calls), "all under acceptance literal:", all(acc(l) for _, l in a.calls))
for (lits, n), node in o.ret:
    print("RETURN line", node.lineno, "notifications on path:", n, "accepted:", acc(lits))
tags = {}
for (lits, n), tag, node in o.exc:
    tags.setdefault((tag, n), 0); tags[(tag, n)] += 1
print("raising exits (tag, notifications sent before raise):", tags)
for (lits, n), node in o.ret:
    if not acc(lits): print("  NOACC:", sorted(l for l in lits if "ersion" in l)); break
