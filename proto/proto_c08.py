"""Throwaway: C08 R1-R3 on ProtocolHandler.handle_message (handlers not inlined)."""
import ast, sys
sys.path.insert(0, "/tmp/scratch")
from proto_flow import Literals, find_func, norm_lit

CTORS = {"create_error_response", "create_response"}

class C08(Literals):
    def __init__(self):
        super().__init__(); self.findings = []; self.try_stack = []; self.sites = 0
    def raises(self, node):
        for c in ast.walk(node):
            if isinstance(c, ast.Await) and isinstance(c.value, ast.Call) and isinstance(c.value.func, ast.Name):
                return {"Exception*"}      # invoking a value from the handler registry
        return set()
    def contained(self):
        for t in self.try_stack:
            for h in t.handlers:
                names = [] if h.type is None else [ast.unparse(e) for e in (h.type.elts if isinstance(h.type, ast.Tuple) else [h.type])]
                if h.type is None or "Exception" in names or "BaseException" in names:
                    return True
        return False
    def check_expr(self, state, node, where):
        for c in ast.walk(node):
            if isinstance(c, ast.Call) and isinstance(c.func, ast.Attribute) and c.func.attr in CTORS:
                self.sites += 1
                idarg = self.subst(c.args[0])
                txt = ast.unparse(idarg)
                nonnull = f"{txt} is not None" in state
                nullable_src = "getattr(" in txt and txt.endswith(", None)")
                if nullable_src and not nonnull and not self.contained():
                    self.findings.append((c.lineno, where, f"{c.func.attr}(id={txt}) reachable with id possibly None; literals={sorted(state)}"))
    def simple(self, state, stmt):
        if isinstance(stmt, (ast.Return, ast.Expr, ast.Assign)) and getattr(stmt, "value", None) is not None:
            self.check_expr(state, stmt.value, type(stmt).__name__)
        return super().simple(state, stmt)
    def on_return(self, state, node):
        # R3: notification => first element None
        first = node.value.elts[0] if isinstance(node.value, ast.Tuple) else node.value
        idlit_none = [l for l in state if l.endswith("'id', None) is None")]
        if idlit_none and not (isinstance(first, ast.Constant) and first.value is None):
            self.findings.append((node.lineno, "Return", "notification path returns a response: " + ast.unparse(first)[:50]))
        return state

for path in sys.argv[1:]:
    fn = find_func(ast.parse(open(path).read()), "handle_message")
    a = C08(); o = a.block(fn.body, {frozenset()})
    print(path.split("/src/")[0], "sites:", a.sites, "returns:", len(o.ret), "findings:", len(set(a.findings)))
    for f in sorted(set(a.findings)): print("   ", f)
