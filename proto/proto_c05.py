"""Throwaway: C05 R1/R3 on StdioClient._stdout_reader: fallible ops in the chunk loop outside a per-item try."""
import ast, sys
fn = [n for n in ast.walk(ast.parse(open(sys.argv[1]).read())) if isinstance(n, ast.AsyncFunctionDef) and n.name == "_stdout_reader"][0]
loop = [n for n in ast.walk(fn) if isinstance(n, ast.AsyncFor)][0]
SAFE_STR = {"split", "strip", "rstrip", "startswith"}
str_vars = {"buffer", "line"}          # proved str: init "" / += str / element of str.split
def fallible(call):
    f = call.func
    t = ast.unparse(f)
    if t.startswith(("logger.", "logging.", "isinstance", "traceback.")): return False
    if isinstance(f, ast.Attribute) and isinstance(f.value, ast.Name) and f.value.id in str_vars and f.attr in SAFE_STR: return False
    return True
def scan(stmts, protected, out):
    for s in stmts:
        if isinstance(s, ast.Try):
            covers = any(h.type is None or "Exception" in ast.unparse(h.type) for h in s.handlers)
            escapes = any(isinstance(x, (ast.Break, ast.Return, ast.Raise)) for h in s.handlers for x in ast.walk(h))
            scan(s.body, protected or (covers and not escapes), out)
            for h in s.handlers: scan(h.body, protected, out)
        elif isinstance(s, (ast.For, ast.While, ast.If, ast.With)):
            hdr = s.iter if isinstance(s, ast.For) else getattr(s, "test", None)
            if hdr is not None:
                for c in ast.walk(hdr):
                    if isinstance(c, ast.Call) and fallible(c) and not protected: out.append((c.lineno, ast.unparse(c)))
            scan(s.body, protected, out); scan(getattr(s, "orelse", []), protected, out)
        else:
            for c in ast.walk(s):
                if isinstance(c, ast.Call) and fallible(c) and not protected: out.append((c.lineno, ast.unparse(c)))
out = []; scan(loop.body, False, out)
print(sys.argv[1].split("/src/")[0], "unprotected fallible ops in reader loop:", out)
# R1: stateless decode on loop variable?
tv = loop.target.id
stateless = [ast.unparse(c) for c in ast.walk(loop) if isinstance(c, ast.Call) and isinstance(c.func, ast.Attribute) and c.func.attr == "decode" and isinstance(c.func.value, ast.Name) and c.func.value.id == tv]
print("   stateless decode of the chunk:", stateless)
